(* C14 x C13: the feature-encoder hypothesis `acts_rowwise Enc enc_r` of the C14 theorems, DISCHARGED for the
   nine built-in stype-encoder classes by the per-cell theorem of C13 (Model/Encoders.v, Proofs/EncodersProofs.v:
   forward_with_cellwise).  The scalar type of the C14 glue is instantiated with C13's floats-with-NaN X (car S);
   the glue's operations O : Ops (X (car S)) stay arbitrary. *)
From Coq Require Import List Arith Bool ZArith Lia.
From PF Require Import Lib.ListX Lib.Chunks Lib.Tensor Model.Layers Proofs.LayersProofs.
From PF Require Import Gen.Tables Model.Encoders Proofs.EncodersProofs.
Import ListNotations.

Lemma mapM_opt_all : forall {B C} (f : B -> option C) (l : list B), mapM f l = opt_all (map f l).
Proof.
  induction l as [|x l IH]; [reflexivity|]. cbn [mapM map opt_all]. rewrite IH.
  destruct (f x); [destruct (opt_all (map f l))|]; reflexivity.
Qed.

Section WithBuiltinEncoders.
  Variable S : Scalar.
  Notation XR := (X (car S)).

  (* what a configured built-in encoder does to ONE row of cells: column j's cell goes through cell_fn j
     (NA handling, encode, nan_to_num, post-module), reading column j's statistics and parameters only;
     None = the call raises for this row (wrong width, a cell outside the encoder's domain) *)
  Definition enc_row (c : config S) (row : list (cellv S)) : option (list (list XR)) :=
    rowfn (ncols S c) (cell_fn S c (cf_post S c)) row.

  (* C13's per_cell, read as row-wiseness: the encoder's forward is the row-by-row evaluation of enc_row *)
  Lemma builtin_encoder_rowwise : forall (c : config S) (x : input S),
    wf_config S c -> input_ok S c x -> construct_ok S c = true ->
    forward S c x = opt_all (map (enc_row c) (cells S (cf_stats S c) x)).
  Proof.
    intros c x Hw Hi Hc. rewrite forward_is_with, (forward_with_cellwise S (cf_post S c) c x Hw Hi), Hc.
    rewrite cw_as_mapM, mapM_opt_all. reflexivity.
  Qed.

  (* any row-wise glue after a built-in encoder: no hypothesis on the encoder is left *)
  Lemma glue_after_builtin_encoder : forall {T} (G : list (list (list XR)) -> list T) g (c : config S) (x : input S),
    acts_rowwise G g -> wf_config S c -> input_ok S c x -> construct_ok S c = true ->
    option_map G (forward S c x) =
    opt_all (map (fun row => option_map g (enc_row c row)) (cells S (cf_stats S c) x)).
  Proof.
    intros T G g c x HG Hw Hi Hc. rewrite builtin_encoder_rowwise by assumption.
    rewrite opt_all_option_map. destruct (opt_all _); cbn [option_map]; [rewrite HG|]; reflexivity.
  Qed.

  (* the same for glue that can itself raise (shape assertions) *)
  Lemma partial_glue_after_builtin_encoder :
    forall {T} (G : list (list (list XR)) -> option (list T)) g (c : config S) (x : input S),
    acts_rowwise_opt G g -> wf_config S c -> input_ok S c x -> construct_ok S c = true ->
    match forward S c x with Some e => G e | None => None end =
    opt_all (map (fun row => match enc_row c row with Some e => g e | None => None end) (cells S (cf_stats S c) x)).
  Proof.
    intros T G g c x HG Hw Hi Hc. rewrite builtin_encoder_rowwise by assumption.
    rewrite (opt_all_bind (@nil (list XR)) (enc_row c) (fun _ e => g e)).
    destruct (opt_all (map (enc_row c) (cells S (cf_stats S c) x))) as [E|] eqn:HE; [|reflexivity].
    destruct (opt_all_Some_inv (@nil (list XR)) _ _ E HE) as [-> _].
    rewrite HG, map_map. reflexivity.
  Qed.

  (* StypeWiseFeatureEncoder.forward for a frame with two stypes (what the C14 cases have: numerical and
     categorical): each stype's encoder on its own feature block, torch.cat(xs, dim=1) *)
  Definition stypewise2 (c1 : config S) (x1 : input S) (c2 : config S) (x2 : input S) : option (list (list (list XR))) :=
    match forward S c1 x1, forward S c2 x2 with
    | Some a, Some b => Some (zipw (@app (list XR)) a b)
    | _, _ => None
    end.
  Definition enc_row2 (c1 c2 : config S) (p : list (cellv S) * list (cellv S)) : option (list (list XR)) :=
    match enc_row c1 (fst p), enc_row c2 (snd p) with
    | Some a, Some b => Some (a ++ b)
    | _, _ => None
    end.

  Lemma opt_all_zip : forall {A B C D E} (f : A -> option C) (g : B -> option D) (h : C -> D -> E) (X : list A) (Y : list B),
    length X = length Y ->
    match opt_all (map f X), opt_all (map g Y) with
    | Some a, Some b => Some (zipw h a b)
    | _, _ => None
    end =
    opt_all (map (fun p => match f (fst p), g (snd p) with Some a, Some b => Some (h a b) | _, _ => None end)
                 (combine X Y)).
  Proof.
    intros A B C D E f g h X. induction X as [|x X IH]; intros [|y Y] Hl; try discriminate; [reflexivity|].
    injection Hl as Hl. specialize (IH Y Hl). cbn [map opt_all combine fst snd]. rewrite <- IH.
    destruct (f x) as [a|], (g y) as [b|], (opt_all (map f X)) as [A0|], (opt_all (map g Y)) as [B0|]; reflexivity.
  Qed.

  Lemma stypewise2_rowwise : forall c1 x1 c2 x2,
    wf_config S c1 -> input_ok S c1 x1 -> construct_ok S c1 = true ->
    wf_config S c2 -> input_ok S c2 x2 -> construct_ok S c2 = true ->
    length (cells S (cf_stats S c1) x1) = length (cells S (cf_stats S c2) x2) ->
    stypewise2 c1 x1 c2 x2 =
    opt_all (map (enc_row2 c1 c2) (combine (cells S (cf_stats S c1) x1) (cells S (cf_stats S c2) x2))).
  Proof.
    intros c1 x1 c2 x2 Hw1 Hi1 Hc1 Hw2 Hi2 Hc2 Hl. unfold stypewise2.
    rewrite !builtin_encoder_rowwise by assumption.
    apply (opt_all_zip (enc_row c1) (enc_row c2) (@app (list XR)) _ _ Hl).
  Qed.

  (* generic: row-wise glue after ANY source that is itself row-by-row *)
  Lemma glue_after_rowwise_source : forall {U T} (src : option (list (list (list XR)))) (e : U -> option (list (list XR)))
                                           (rows : list U) (G : list (list (list XR)) -> list T) g,
    src = opt_all (map e rows) -> acts_rowwise G g ->
    option_map G src = opt_all (map (fun row => option_map g (e row)) rows).
  Proof.
    intros U T src e rows G g -> HG. rewrite opt_all_option_map.
    destruct (opt_all _); cbn [option_map]; [rewrite HG|]; reflexivity.
  Qed.

  Lemma partial_glue_after_rowwise_source :
    forall {U T} (src : option (list (list (list XR)))) (e : U -> option (list (list XR))) (rows : list U)
           (G : list (list (list XR)) -> option (list T)) g,
    src = opt_all (map e rows) -> acts_rowwise_opt G g ->
    match src with Some E => G E | None => None end =
    opt_all (map (fun row => match e row with Some E => g E | None => None end) rows).
  Proof.
    intros U T src e rows G g -> HG.
    rewrite (opt_all_bind (@nil (list XR)) e (fun _ E => g E)).
    destruct (opt_all (map e rows)) as [E|] eqn:HE; [|reflexivity].
    destruct (opt_all_Some_inv (@nil (list XR)) _ _ E HE) as [-> _].
    rewrite HG, map_map. reflexivity.
  Qed.

  (* ------------- the models of C14 behind a two-stype feature encoder: no encoder hypothesis ------------- *)
  Variable O : Ops XR.

  Definition frame_rows (c1 : config S) (x1 : input S) (c2 : config S) (x2 : input S) :=
    combine (cells S (cf_stats S c1) x1) (cells S (cf_stats S c2) x2).

  Definition enc_side (c1 : config S) (x1 : input S) (c2 : config S) (x2 : input S) : Prop :=
    wf_config S c1 /\ input_ok S c1 x1 /\ construct_ok S c1 = true /\
    wf_config S c2 /\ input_ok S c2 x2 /\ construct_ok S c2 = true /\
    length (cells S (cf_stats S c1) x1) = length (cells S (cf_stats S c2) x2).

  Lemma enc_side_src : forall c1 x1 c2 x2, enc_side c1 x1 c2 x2 ->
    stypewise2 c1 x1 c2 x2 = opt_all (map (enc_row2 c1 c2) (frame_rows c1 x1 c2 x2)).
  Proof. intros c1 x1 c2 x2 (A1 & A2 & A3 & B1 & B2 & B3 & L). apply stypewise2_rowwise; assumption. Qed.

  Lemma id_rw : acts_rowwise (fun e : list (list (list XR)) => e) (fun e => e).
  Proof. intros X. rewrite map_id. reflexivity. Qed.

  Lemma mlp_after_encoders : forall C Mlp mlp_r c1 x1 c2 x2, acts_rowwise Mlp mlp_r -> enc_side c1 x1 c2 x2 ->
    option_map (mlp_forward O C (fun e => e) Mlp) (stypewise2 c1 x1 c2 x2) =
    opt_all (map (fun row => option_map (mlp_row O C (fun e => e) mlp_r) (enc_row2 c1 c2 row)) (frame_rows c1 x1 c2 x2)).
  Proof.
    intros. apply glue_after_rowwise_source; [apply enc_side_src; assumption|].
    apply mlp_rowwise; [apply id_rw | assumption].
  Qed.

  Lemma resnet_after_encoders : forall Backbone backbone_r Dec dec_r c1 x1 c2 x2,
    Forall2 acts_rowwise Backbone backbone_r -> acts_rowwise Dec dec_r -> enc_side c1 x1 c2 x2 ->
    option_map (resnet_forward (fun e => e) Backbone Dec) (stypewise2 c1 x1 c2 x2) =
    opt_all (map (fun row => option_map (resnet_row (fun e => e) backbone_r dec_r) (enc_row2 c1 c2 row))
                 (frame_rows c1 x1 c2 x2)).
  Proof.
    intros. apply glue_after_rowwise_source; [apply enc_side_src; assumption|].
    apply resnet_rowwise; [apply id_rw | assumption | assumption].
  Qed.

  Lemma ft_after_encoders : forall (cls : list XR) TE te_r Dec dec_r c1 x1 c2 x2,
    acts_rowwise TE te_r -> acts_rowwise Dec dec_r -> enc_side c1 x1 c2 x2 ->
    match stypewise2 c1 x1 c2 x2 with Some E => ft_forward (fun e => e) cls TE Dec E | None => None end =
    opt_all (map (fun row => match enc_row2 c1 c2 row with Some E => ft_row (fun e => e) cls te_r dec_r E | None => None end)
                 (frame_rows c1 x1 c2 x2)).
  Proof.
    intros. apply partial_glue_after_rowwise_source; [apply enc_side_src; assumption|].
    intros X. apply ft_rowwise; [apply id_rw | assumption | assumption].
  Qed.

  Lemma tabnet_after_encoders : forall Bn0 bn0 Ft0 ft0 split vbs Steps steps Lin lin c1 x1 c2 x2,
    0 < vbs -> steps <> [] -> acts_rowwise Bn0 bn0 -> acts_rowwise Ft0 ft0 ->
    Forall2 (step_rowwise (R := XR)) Steps steps -> acts_rowwise Lin lin -> enc_side c1 x1 c2 x2 ->
    match stypewise2 c1 x1 c2 x2 with Some E => tabnet_forward O (fun e => e) Bn0 Ft0 split vbs Steps Lin E | None => None end =
    opt_all (map (fun row => match enc_row2 c1 c2 row with
                             | Some E => tabnet_row O (fun e => e) bn0 ft0 split steps lin E
                             | None => None
                             end) (frame_rows c1 x1 c2 x2)).
  Proof.
    intros. apply partial_glue_after_rowwise_source; [apply enc_side_src; assumption|].
    intros X. apply tabnet_rowwise_opt; try assumption. apply id_rw.
  Qed.

  (* ExcelFormer: numerical columns only, one encoder *)
  Lemma excel_after_encoder : forall Convs convs_r Dec dec_r (c : config S) (x : input S),
    Forall2 acts_rowwise_opt Convs convs_r -> acts_rowwise Dec dec_r ->
    wf_config S c -> input_ok S c x -> construct_ok S c = true ->
    match forward S c x with Some E => excel_forward (fun e => e) Convs Dec E | None => None end =
    opt_all (map (fun row => match enc_row c row with Some E => excel_row (fun e => e) convs_r dec_r E | None => None end)
                 (cells S (cf_stats S c) x)).
  Proof.
    intros. apply partial_glue_after_rowwise_source; [apply builtin_encoder_rowwise; assumption|].
    intros X. apply excel_rowwise; [apply id_rw | assumption | assumption].
  Qed.

  Lemma id_rowwise : acts_rowwise (fun e : list (list (list XR)) => e) (fun e => e).
  Proof. intros X. rewrite map_id. reflexivity. Qed.
End WithBuiltinEncoders.
