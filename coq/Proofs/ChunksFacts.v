From Coq Require Import List Arith Lia.
From PF Require Import Lib.Chunks.
Import ListNotations.

Section ChunksFacts.
  Context {A : Type}.
  Implicit Types l : list A.

  Lemma chunks_fuel_concat : forall fuel k l, 0 < k -> length l <= fuel ->
    concat (chunks_fuel fuel k l) = l.
  Proof.
    induction fuel as [|f IH]; intros k l Hk Hl.
    - destruct l; [reflexivity | simpl in Hl; lia].
    - destruct l as [|x r]; [reflexivity|].
      cbn [chunks_fuel concat].
      rewrite IH; [apply firstn_skipn | exact Hk |].
      rewrite skipn_length. cbn [length] in *. lia.
  Qed.

  Theorem chunks_concat : forall k l, 0 < k -> concat (chunks k l) = l.
  Proof. intros; apply chunks_fuel_concat; auto. Qed.

  Lemma chunks_fuel_sizes : forall fuel k l, 0 < k -> length l <= fuel ->
    Forall (fun c => 0 < length c <= k) (chunks_fuel fuel k l).
  Proof.
    induction fuel as [|f IH]; intros k l Hk Hl; [constructor|].
    destruct l as [|x r]; [constructor|].
    cbn [chunks_fuel]. constructor.
    - rewrite firstn_length. cbn [length]. lia.
    - apply IH; auto. rewrite skipn_length. cbn [length] in *. lia.
  Qed.

  Theorem chunks_sizes : forall k l, 0 < k -> Forall (fun c => 0 < length c <= k) (chunks k l).
  Proof. intros; apply chunks_fuel_sizes; auto. Qed.

  (* all chunks but the last have exactly k elements *)
  Lemma chunks_fuel_full : forall fuel k l, 0 < k -> length l <= fuel ->
    forall cs c, chunks_fuel fuel k l = cs ++ [c] -> Forall (fun c' => length c' = k) cs.
  Proof.
    induction fuel as [|f IH]; intros k l Hk Hl cs c E.
    - simpl in E. destruct cs; discriminate.
    - destruct l as [|x r]; [destruct cs; discriminate|].
      cbn [chunks_fuel] in E.
      destruct cs as [|c0 cs'].
      + constructor.
      + simpl in E. injection E as E0 E1. constructor.
        * subst c0. rewrite firstn_length.
          (* the remainder is non-empty since it produced at least one chunk *)
          assert (Hne : skipn k (x :: r) <> []).
          { intro Hn. rewrite Hn in E1. destruct f; simpl in E1; destruct cs'; discriminate. }
          assert (k < length (x :: r)).
          { destruct (le_lt_dec (length (x :: r)) k) as [Hle|Hlt]; [|exact Hlt].
            exfalso. apply Hne. apply skipn_all2. exact Hle. }
          lia.
        * eapply IH; [exact Hk | | exact E1]. rewrite skipn_length. cbn [length] in *. lia.
  Qed.

  Theorem chunks_all_but_last_full : forall k l cs c, 0 < k ->
    chunks k l = cs ++ [c] -> Forall (fun c' => length c' = k) cs.
  Proof. intros k l cs c Hk E. eapply chunks_fuel_full; eauto. Qed.

  Lemma chunks_fuel_count : forall fuel k l, 0 < k -> length l <= fuel ->
    length (chunks_fuel fuel k l) = (length l + k - 1) / k.
  Proof.
    induction fuel as [|f IH]; intros k l Hk Hl.
    - destruct l; simpl in *; [|lia]. symmetry. apply Nat.div_small. lia.
    - destruct l as [|x r].
      + simpl. symmetry. apply Nat.div_small. lia.
      + cbn [chunks_fuel length]. rewrite IH; auto.
        2:{ rewrite skipn_length. cbn [length] in *. lia. }
        rewrite skipn_length.
        destruct (le_lt_dec (length (x :: r)) k) as [Hle|Hlt].
        * replace (length (x :: r) - k) with 0 by lia.
          rewrite (Nat.div_small (0 + k - 1) k) by lia.
          simpl length in *.
          assert (H1 : (S (length r) + k - 1) / k = 1).
          { symmetry. apply Nat.div_unique with (r := S (length r) - 1); lia. }
          lia.
        * simpl length in *.
          replace (S (length r) + k - 1) with ((S (length r) - k + k - 1) + 1 * k) by lia.
          rewrite Nat.div_add by lia. lia.
  Qed.

  Theorem chunks_count : forall k l, 0 < k -> length (chunks k l) = (length l + k - 1) / k.
  Proof. intros; apply chunks_fuel_count; auto. Qed.

  Theorem drop_short_all_full : forall k (cs : list (list A)), Forall (fun c => length c = k) (drop_short k cs).
  Proof.
    intros k cs. unfold drop_short. apply Forall_forall. intros c Hc.
    apply filter_In in Hc. destruct Hc as [_ Hc]. apply Nat.eqb_eq in Hc. exact Hc.
  Qed.

  (* dropping the short last chunk yields a prefix of the row order *)
  Theorem drop_short_prefix : forall k l, 0 < k ->
    exists tail, l = concat (drop_short k (chunks k l)) ++ tail /\ length tail < k.
  Proof.
    intros k l Hk.
    destruct (chunks k l) as [|c0 cs0] eqn:E.
    - exists l. split; [reflexivity|].
      pose proof (chunks_concat k l Hk) as Hc. rewrite E in Hc. simpl in Hc. subst l. simpl. lia.
    - assert (Hnn : c0 :: cs0 <> []) by discriminate.
      destruct (exists_last Hnn) as [cs [c Ecs]].
      rewrite Ecs in *.
      pose proof (chunks_all_but_last_full k l cs c Hk E) as Hfull.
      pose proof (chunks_sizes k l Hk) as Hsz. rewrite E in Hsz.
      pose proof (chunks_concat k l Hk) as Hc. rewrite E in Hc.
      assert (Hfilt : drop_short k cs = cs).
      { unfold drop_short. clear - Hfull. induction Hfull as [|c1 r H1 Hr IH]; [reflexivity|].
        simpl. rewrite H1, Nat.eqb_refl. f_equal. exact IH. }
      unfold drop_short in *. rewrite filter_app, Hfilt.
      apply Forall_app in Hsz. destruct Hsz as [_ Hlast].
      apply Forall_inv in Hlast. rename Hlast into Hc_sz.
      simpl. destruct (Nat.eqb_spec (length c) k) as [Heq|Hne].
      + exists []. rewrite app_nil_r. split; [symmetry; exact Hc | simpl; lia].
      + exists c. rewrite app_nil_r. rewrite concat_app in Hc. simpl in Hc. rewrite app_nil_r in Hc.
        split; [symmetry; exact Hc | lia].
  Qed.
End ChunksFacts.
