(* Lemmas about Model/Encoders.v.
   Part 1: list plumbing and the theory of the per-cell evaluator `cw`.
   Part 2: C12 domain contract (index arithmetic, calendar ranges, tiling).
   Part 3: every encoder's forward is `cw` of a cell function that reads only
           column j's parameters and statistics; NaN / NA-strategy semantics. *)
From Coq Require Import String List ZArith QArith Bool Arith Lia.
Require Import PF.Lib.ListX PF.Lib.Calendar PF.Proofs.CalendarFacts PF.Gen.Tables PF.Model.Encoders.
Import ListNotations.
Local Close Scope Q_scope.
Local Close Scope Z_scope.
Local Open Scope nat_scope.

(* ===================================================================== 1 *)
Section Kit.
  Context {A B C : Type}.

  Lemma mapM_total : forall (f : A -> B) l, mapM (fun x => Some (f x)) l = Some (map f l).
  Proof. induction l as [|x l IH]; simpl; [reflexivity|]. rewrite IH. reflexivity. Qed.

  Lemma mapM_ext_in : forall (f g : A -> option B) l, (forall x, In x l -> f x = g x) -> mapM f l = mapM g l.
  Proof.
    induction l as [|x l IH]; intros H; simpl; [reflexivity|].
    rewrite (H x (or_introl eq_refl)), IH; [reflexivity|]. intros; apply H; right; assumption.
  Qed.

  Lemma mapM_len : forall (f : A -> option B) l l', mapM f l = Some l' -> length l' = length l.
  Proof.
    induction l as [|x l IH]; simpl; intros l' H.
    - inversion H; reflexivity.
    - destruct (f x); [|discriminate]. destruct (mapM f l) eqn:E; [|discriminate].
      inversion H; subst. simpl. f_equal. apply IH. reflexivity.
  Qed.

  Lemma mapM_nth : forall (f : A -> option B) l l' i x,
      mapM f l = Some l' -> nth_error l i = Some x -> exists y, nth_error l' i = Some y /\ f x = Some y.
  Proof.
    induction l as [|a l IH]; simpl; intros l' i x H Hn.
    - destruct i; discriminate.
    - destruct (f a) eqn:Fa; [|discriminate]. destruct (mapM f l) eqn:E; [|discriminate].
      inversion H; subst. destruct i; simpl in *.
      + inversion Hn; subst. eauto.
      + eapply IH; eauto.
  Qed.

  Lemma mapM_nth_inv : forall (f : A -> option B) l l' i y,
      mapM f l = Some l' -> nth_error l' i = Some y -> exists x, nth_error l i = Some x /\ f x = Some y.
  Proof.
    induction l as [|a l IH]; simpl; intros l' i y H Hn.
    - inversion H; subst. destruct i; discriminate.
    - destruct (f a) eqn:Fa; [|discriminate]. destruct (mapM f l) eqn:E; [|discriminate].
      inversion H; subst. destruct i; simpl in *.
      + inversion Hn; subst. eauto.
      + eapply IH; eauto.
  Qed.

  Lemma mapM_none_of : forall (f : A -> option B) l i x,
      nth_error l i = Some x -> f x = None -> mapM f l = None.
  Proof.
    induction l as [|a l IH]; simpl; intros i x Hn Hf.
    - destruct i; discriminate.
    - destruct i; simpl in Hn.
      + inversion Hn; subst. rewrite Hf. reflexivity.
      + rewrite (IH _ _ Hn Hf). destruct (f a); reflexivity.
  Qed.

  Lemma mapM_some_all : forall (f : A -> option B) l,
      (forall x, In x l -> f x <> None) -> mapM f l <> None.
  Proof.
    induction l as [|a l IH]; simpl; intros H; [discriminate|].
    destruct (f a) eqn:Fa; [|exfalso; eapply H; eauto].
    destruct (mapM f l) eqn:E; [discriminate|]. exfalso. apply IH; auto.
  Qed.

  (* mapM f l >>= mapM g  =  mapM (f >=> g) l *)
  Lemma mapM_bind : forall (f : A -> option B) (g : B -> option C) l,
      obind (mapM f l) (mapM g) = mapM (fun x => obind (f x) g) l.
  Proof.
    induction l as [|a l IH]; simpl; [reflexivity|].
    destruct (f a) as [b|] eqn:Fa; simpl.
    - destruct (mapM f l) as [bs|] eqn:E; simpl in *.
      + rewrite <- IH. simpl. reflexivity.
      + rewrite <- IH. destruct (g b); reflexivity.
    - destruct (mapM f l); reflexivity.
  Qed.

  (* selecting rows commutes with any element-wise partial map *)
  Lemma mapM_gather : forall (f : A -> option B) l l' idx sel,
      mapM f l = Some l' -> tgather l idx = Some sel -> mapM f sel = tgather l' idx.
  Proof.
    unfold tgather, tget. intros f l l' idx. revert l'.
    induction idx as [|i idx IH]; simpl; intros l' sel H Hs.
    - inversion Hs; reflexivity.
    - destruct (nth_error l i) as [x|] eqn:Hn; [|discriminate].
      destruct (mapM (nth_error l) idx) as [s|] eqn:E; [|discriminate].
      inversion Hs; subst. simpl.
      destruct (mapM_nth _ _ _ _ _ H Hn) as [y [Hy Fy]]. rewrite Fy, Hy.
      rewrite (IH l' s H eq_refl). reflexivity.
  Qed.
End Kit.

Lemma mapM_map' : forall {A B C} (f : B -> option C) (g : A -> B) l, mapM f (map g l) = mapM (fun x => f (g x)) l.
Proof. induction l as [|x l IH]; simpl; [reflexivity|]. rewrite IH. reflexivity. Qed.

Lemma option_map_mapM : forall {A B C} (f : A -> option B) (g : B -> C) l,
    option_map (map g) (mapM f l) = mapM (fun x => option_map g (f x)) l.
Proof.
  induction l as [|x l IH]; simpl; [reflexivity|].
  destruct (f x); simpl; [|reflexivity]. rewrite <- IH. destruct (mapM f l); reflexivity.
Qed.

(* ---------------------------------------------------------------- zipWith *)
Lemma zipWith_length : forall {A B C} (f : A -> B -> C) a b, length (zipWith f a b) = Nat.min (length a) (length b).
Proof. intros. unfold zipWith. rewrite map_length, combine_length. reflexivity. Qed.

Lemma zipWith_map_same : forall {A B C D} (h : B -> C -> D) (F : A -> B) (G : A -> C) l,
    zipWith h (map F l) (map G l) = map (fun x => h (F x) (G x)) l.
Proof. intros. unfold zipWith. induction l as [|x l IH]; simpl; [reflexivity|]. rewrite IH. reflexivity. Qed.

(* an elementwise op against a per-column vector, seen as an indexed map *)
Lemma zipWith_indexed : forall {A B C} (f : A -> B -> C) (d : B) row ps k,
    length row = length ps ->
    zipWith f row ps = map (fun p => f (snd p) (nth (fst p - k) ps d)) (combine (seq k (length row)) row).
Proof.
  intros A B C f d. induction row as [|x row IH]; intros ps k H; destruct ps as [|p ps]; simpl in *; try discriminate.
  - reflexivity.
  - unfold zipWith. simpl. rewrite Nat.sub_diag. f_equal.
    change (map (fun p0 => f (fst p0) (snd p0)) (combine row ps)) with (zipWith f row ps).
    rewrite (IH ps (Datatypes.S k)) by lia.
    apply map_ext_in. intros [i y] Hin. simpl.
    apply in_combine_l in Hin. apply in_seq in Hin.
    replace (i - k) with (Datatypes.S (i - Datatypes.S k)) by lia. reflexivity.
Qed.

(* the row evaluator of cw for a total cell function *)
Definition rowmap {A B} (c : nat) (g : nat -> A -> B) (row : list A) : list B :=
  map (fun p => g (fst p) (snd p)) (combine (seq 0 c) row).

Lemma rowmap_length : forall {A B} c (g : nat -> A -> B) row, length row = c -> length (rowmap c g row) = c.
Proof. intros. unfold rowmap. rewrite map_length, combine_length, seq_length. lia. Qed.

Lemma zipWith_rowmap : forall {A B C} (f : A -> B -> C) (d : B) row ps,
    length row = length ps -> zipWith f row ps = rowmap (length ps) (fun c x => f x (nth c ps d)) row.
Proof.
  intros. rewrite (zipWith_indexed f d row ps 0) by assumption. unfold rowmap. rewrite H.
  apply map_ext. intros [i y]. simpl. rewrite Nat.sub_0_r. reflexivity.
Qed.

Lemma combine_idx_map : forall {A B} (f : nat -> A -> B) idx row,
    combine idx (map (fun p => f (fst p) (snd p)) (combine idx row))
    = map (fun p => (fst p, f (fst p) (snd p))) (combine idx row).
Proof.
  induction idx as [|i idx IH]; intros row; simpl; [reflexivity|].
  destruct row as [|x row]; simpl; [reflexivity|]. rewrite IH. reflexivity.
Qed.

Lemma rowmap_rowmap : forall {A B C} c (g : nat -> B -> C) (f : nat -> A -> B) row,
    rowmap c g (rowmap c f row) = rowmap c (fun j x => g j (f j x)) row.
Proof. intros. unfold rowmap. rewrite combine_idx_map, map_map. reflexivity. Qed.

Lemma rowmap_ext : forall {A B} c (f g : nat -> A -> B) row,
    (forall j x, j < c -> f j x = g j x) -> rowmap c f row = rowmap c g row.
Proof.
  intros. unfold rowmap. apply map_ext_in. intros [j x] Hin. simpl.
  apply in_combine_l in Hin. apply in_seq in Hin. apply H. lia.
Qed.

Lemma rowmap_zip : forall {A B C D} c (h : B -> C -> D) (f1 : nat -> A -> B) (f2 : nat -> A -> C) row,
    zipWith h (rowmap c f1 row) (rowmap c f2 row) = rowmap c (fun j x => h (f1 j x) (f2 j x)) row.
Proof. intros. unfold rowmap. apply zipWith_map_same. Qed.

Lemma rowmap_map : forall {A B C} c (g : B -> C) (f : nat -> A -> B) row,
    map g (rowmap c f row) = rowmap c (fun j x => g (f j x)) row.
Proof. intros. unfold rowmap. rewrite map_map. reflexivity. Qed.

Lemma rowmap_of_map : forall {A B C} c (f : nat -> B -> C) (g : A -> B) row,
    rowmap c f (map g row) = rowmap c (fun j x => f j (g x)) row.
Proof.
  intros A B C c f g. unfold rowmap. generalize (seq 0 c). induction l as [|i l IH]; intros row; [reflexivity|].
  destruct row; simpl; [reflexivity|]. rewrite IH. reflexivity.
Qed.

Lemma rowmap_seq : forall {A B} c (g : nat -> A -> B) (d : A) row,
    length row = c -> map (fun j => g j (nth j row d)) (seq 0 c) = rowmap c g row.
Proof.
  intros A B c g d row H. unfold rowmap. subst c.
  assert (G : forall k, map (fun j => g j (nth (j - k) row d)) (seq k (length row))
                        = map (fun p => g (fst p) (snd p)) (combine (seq k (length row)) row)).
  { induction row as [|x row IH]; intros k; simpl; [reflexivity|].
    rewrite Nat.sub_diag. f_equal. rewrite <- IH. apply map_ext_in. intros j Hj. apply in_seq in Hj.
    replace (j - k) with (Datatypes.S (j - Datatypes.S k)) by lia. reflexivity. }
  rewrite <- (G 0). apply map_ext. intros j. rewrite Nat.sub_0_r. reflexivity.
Qed.

(* ----------------------------------------------------------------- rect *)
Lemma rect_forall : forall {A} c (m : mat A), rect c m = true <-> (forall row, In row m -> length row = c).
Proof.
  intros. unfold rect. rewrite forallb_forall. split; intros H row Hin; specialize (H row Hin).
  - apply Nat.eqb_eq; assumption.
  - apply Nat.eqb_eq; assumption.
Qed.

Lemma rect_map : forall {A B} c (f : list A -> list B) (m : mat A),
    (forall row, length row = c -> length (f row) = c) -> rect c m = true -> rect c (map f m) = true.
Proof.
  intros A B c f m H R. apply rect_forall. intros row Hin.
  apply in_map_iff in Hin. destruct Hin as [r [<- Hr]]. apply H. apply (proj1 (rect_forall c m) R). assumption.
Qed.

(* ------------------------------------------------------------------- cw *)
Section Cw.
  Context {A B : Type}.

  Definition rowfn (c : nat) (f : nat -> A -> option B) (row : list A) : option (list B) :=
    if length row =? c then mapM (fun p => f (fst p) (snd p)) (combine (seq 0 c) row) else None.

  Lemma cw_as_mapM : forall c (f : nat -> A -> option B) m, cw c f m = mapM (rowfn c f) m.
  Proof.
    intros c f m. unfold cw. induction m as [|row m IH]; simpl; [reflexivity|].
    unfold rowfn at 1. destruct (length row =? c) eqn:E; simpl.
    - destruct (rect c m) eqn:R.
      + rewrite <- IH. reflexivity.
      + rewrite <- IH. destruct (mapM _ (combine (seq 0 c) row)); reflexivity.
    - reflexivity.
  Qed.

  Lemma cw_total : forall c (g : nat -> A -> B) m,
      cw c (fun j x => Some (g j x)) m = if rect c m then Some (map (rowmap c g) m) else None.
  Proof.
    intros. unfold cw. destruct (rect c m); [|reflexivity].
    rewrite <- mapM_total. apply mapM_ext_in. intros row _. unfold rowmap. apply mapM_total.
  Qed.

  Lemma cw_shape : forall c (f : nat -> A -> option B) m o,
      cw c f m = Some o -> length o = length m /\ rect c m = true /\ rect c o = true.
  Proof.
    intros c f m o H. pose proof H as H0. unfold cw in H. destruct (rect c m) eqn:R; [|discriminate].
    split; [eapply mapM_len; eauto|]. split; [reflexivity|].
    rewrite rect_forall. intros orow Hin. apply In_nth_error in Hin. destruct Hin as [i Hi].
    destruct (mapM_nth_inv _ _ _ _ _ H Hi) as [row [Hr Hf]].
    apply mapM_len in Hf. rewrite combine_length, seq_length in Hf.
    rewrite rect_forall in R. specialize (R row (nth_error_In _ _ Hr)). lia.
  Qed.

  Lemma nth_error_combine_seq : forall (row : list A) c j x,
      length row = c -> nth_error row j = Some x -> nth_error (combine (seq 0 c) row) j = Some (j, x).
  Proof.
    intros row c j x H Hn. subst c.
    assert (G : forall k, nth_error (combine (seq k (length row)) row) j = Some (k + j, x)).
    { revert j Hn. induction row as [|y row IH]; intros j Hn k; destruct j; simpl in *; try discriminate.
      - inversion Hn; subst. f_equal. f_equal. lia.
      - rewrite IH by assumption. f_equal. f_equal. lia. }
    apply (G 0).
  Qed.

  Lemma cw_get2 : forall c (f : nat -> A -> option B) m o r j x,
      cw c f m = Some o -> get2 m r j = Some x -> exists y, get2 o r j = Some y /\ f j x = Some y.
  Proof.
    intros c f m o r j x H Hg. pose proof (cw_shape _ _ _ _ H) as [_ [R _]].
    unfold cw in H. rewrite R in H. unfold get2 in *.
    destruct (nth_error m r) as [row|] eqn:Hr; [|discriminate].
    destruct (mapM_nth _ _ _ _ _ H Hr) as [orow [Ho Hf]]. rewrite Ho.
    rewrite rect_forall in R. specialize (R row (nth_error_In _ _ Hr)).
    pose proof (nth_error_combine_seq row c j x R Hg) as Hc.
    destruct (mapM_nth _ _ _ _ _ Hf Hc) as [y [Hy Fy]]. exists y. auto.
  Qed.

  Lemma cw_get2_inv : forall c (f : nat -> A -> option B) m o r j y,
      cw c f m = Some o -> get2 o r j = Some y -> exists x, get2 m r j = Some x /\ f j x = Some y.
  Proof.
    intros c f m o r j y H Hg. pose proof (cw_shape _ _ _ _ H) as [_ [R _]].
    unfold cw in H. rewrite R in H. unfold get2 in *.
    destruct (nth_error o r) as [orow|] eqn:Ho; [|discriminate].
    destruct (mapM_nth_inv _ _ _ _ _ H Ho) as [row [Hr Hf]]. rewrite Hr.
    destruct (mapM_nth_inv _ _ _ _ _ Hf Hg) as [[i x] [Hc Fx]]. simpl in Fx.
    rewrite rect_forall in R. specialize (R row (nth_error_In _ _ Hr)).
    assert (Hx : nth_error row j = Some x /\ i = j).
    { assert (Hj : j < length row).
      { apply nth_error_Some. intro Hn.
        assert (Hl : j < length (combine (seq 0 c) row)) by (apply nth_error_Some; congruence).
        rewrite combine_length, seq_length in Hl. apply nth_error_None in Hn. lia. }
      destruct (nth_error row j) as [x'|] eqn:Hx; [|apply nth_error_None in Hx; lia].
      rewrite (nth_error_combine_seq row c j x' R Hx) in Hc. inversion Hc; subst. auto. }
    destruct Hx as [Hx ->]. exists x. auto.
  Qed.

  (* a failing cell fails the call *)
  Lemma cw_none_of_cell : forall c (f : nat -> A -> option B) m r j x,
      get2 m r j = Some x -> f j x = None -> cw c f m = None.
  Proof.
    intros c f m r j x Hg Hf. destruct (cw c f m) as [o|] eqn:H; [|reflexivity].
    destruct (cw_get2 _ _ _ _ _ _ _ H Hg) as [y [_ Fy]]. congruence.
  Qed.

  (* LOCALITY: if two inputs agree outside cell (r, j), so do the outputs *)
  Lemma cw_local : forall c (f : nat -> A -> option B) m m' o o' r j,
      cw c f m = Some o -> cw c f m' = Some o' ->
      (forall r' j', (r', j') <> (r, j) -> get2 m' r' j' = get2 m r' j') ->
      forall r' j', (r', j') <> (r, j) -> get2 o' r' j' = get2 o r' j'.
  Proof.
    intros c f m m' o o' r j H H' Hsame r' j' Hne.
    specialize (Hsame r' j' Hne).
    destruct (get2 m r' j') as [x|] eqn:Hx.
    - destruct (cw_get2 _ _ _ _ _ _ _ H Hx) as [y [Hy Fy]].
      destruct (cw_get2 _ _ _ _ _ _ _ H' Hsame) as [y' [Hy' Fy']]. congruence.
    - destruct (get2 o r' j') as [y|] eqn:Hy.
      + destruct (cw_get2_inv _ _ _ _ _ _ _ H Hy) as [x [Hx' _]]. congruence.
      + destruct (get2 o' r' j') as [y'|] eqn:Hy'; [|reflexivity].
        destruct (cw_get2_inv _ _ _ _ _ _ _ H' Hy') as [x [Hx' _]]. congruence.
  Qed.

  (* ROW SELECTION (permutation, subset, duplicates) commutes *)
  Lemma cw_gather : forall c (f : nat -> A -> option B) m o idx sel,
      cw c f m = Some o -> tgather m idx = Some sel -> cw c f sel = tgather o idx.
  Proof. intros c f m o idx sel H Hs. rewrite cw_as_mapM in *. eapply mapM_gather; eauto. Qed.

  (* a cell function that never fails: the call succeeds on every matrix of the right width *)
  Lemma cw_some : forall c (f : nat -> A -> option B) m,
      rect c m = true -> (forall r j x, get2 m r j = Some x -> f j x <> None) -> cw c f m <> None.
  Proof.
    intros c f m R H. unfold cw. rewrite R. apply mapM_some_all. intros row Hin.
    apply mapM_some_all. intros [j x] Hp. simpl.
    apply In_nth_error in Hin. destruct Hin as [r Hr].
    apply In_nth_error in Hp. destruct Hp as [k Hk].
    assert (Hj : k = j /\ nth_error row k = Some x).
    { rewrite rect_forall in R. specialize (R row (nth_error_In _ _ Hr)).
      assert (Hl : k < length (combine (seq 0 c) row)) by (apply nth_error_Some; congruence).
      rewrite combine_length, seq_length in Hl.
      destruct (nth_error row k) as [x'|] eqn:Hx; [|apply nth_error_None in Hx; lia].
      rewrite (nth_error_combine_seq row c k x' R Hx) in Hk. inversion Hk; subst. auto. }
    destruct Hj as [-> Hx]. apply (H r j x). unfold get2. rewrite Hr. assumption.
  Qed.
End Cw.

Lemma forallb_forall' : forall {A B} (g : A -> B) (c : nat) (m : list (list A)),
    forallb (fun row => length row =? c) (map (map g) m) = forallb (fun row => length row =? c) m.
Proof. induction m as [|row m IH]; simpl; [reflexivity|]. rewrite map_length, IH. reflexivity. Qed.

(* pre-composition with a total per-cell map, post-composition with a total map on cells *)
Lemma cw_of_rowmap : forall {A B C} c (f : nat -> B -> option C) (g : nat -> A -> B) m,
    rect c m = true -> cw c f (map (rowmap c g) m) = cw c (fun j x => f j (g j x)) m.
Proof.
  intros A B C c f g m R. unfold cw. rewrite R.
  rewrite (rect_map c (rowmap c g) m) by (auto using rowmap_length).
  rewrite mapM_map'. apply mapM_ext_in. intros row _. unfold rowmap.
  rewrite combine_idx_map, mapM_map'. reflexivity.
Qed.

Lemma cw_post : forall {A B C} c (f : nat -> A -> option B) (h : B -> C) m,
    option_map (map (map h)) (cw c f m) = cw c (fun j x => option_map h (f j x)) m.
Proof.
  intros. unfold cw. destruct (rect c m); [|reflexivity].
  rewrite option_map_mapM. apply mapM_ext_in. intros row _. apply option_map_mapM.
Qed.

Lemma cw_map_in : forall {A B C} c (f : nat -> B -> option C) (g : A -> B) m,
    cw c f (map (map g) m) = cw c (fun j x => f j (g x)) m.
Proof.
  intros. unfold cw.
  assert (R : rect c (map (map g) m) = rect c m).
  { unfold rect. rewrite forallb_forall'. reflexivity. }
  rewrite R. destruct (rect c m); [|reflexivity].
  rewrite mapM_map'. apply mapM_ext_in. intros row _.
  assert (G : forall idx, mapM (fun p => f (fst p) (snd p)) (combine idx (map g row))
                     = mapM (fun p => f (fst p) (g (snd p))) (combine idx row)).
  { induction row as [|x row IH]; intros [|i idx]; simpl; try reflexivity. rewrite IH. reflexivity. }
  apply G.
Qed.


Lemma cw_ext_fun : forall {A B} c (f g : nat -> A -> option B) m,
    (forall j x, f j x = g j x) -> cw c f m = cw c g m.
Proof.
  intros A B c f g m H. unfold cw. destruct (rect c m); [|reflexivity].
  apply mapM_ext_in. intros row _. apply mapM_ext_in. intros p _. apply H.
Qed.

(* ===================================================================== 2 *)
(* C12 domain contract *)

Lemma sum_firstn_S : forall l j, j < length l -> sum (firstn (Datatypes.S j) l) = sum (firstn j l) + nth j l 0.
Proof.
  induction l as [|a l IH]; intros j H; simpl in *; [lia|].
  destruct j; simpl; [unfold sum; simpl; lia|].
  unfold sum in *. simpl. specialize (IH j ltac:(lia)). simpl in IH. lia.
Qed.

Lemma sum_firstn_le : forall l j, sum (firstn j l) <= sum l.
Proof.
  induction l as [|a l IH]; intros j; destruct j; unfold sum in *; simpl; try lia.
  specialize (IH j). lia.
Qed.

Lemma sum_firstn_mono : forall l i j, i <= j -> sum (firstn i l) <= sum (firstn j l).
Proof.
  induction l as [|a l IH]; intros i j H; destruct i, j; unfold sum in *; simpl; try lia.
  specialize (IH i j ltac:(lia)). lia.
Qed.

(* offset = cumsum([0] + counts)[:-1]: the exclusive prefix sums *)
Lemma cumsum_removelast_nth : forall l acc x j,
    j < length l -> nth j (cumsum_from acc (removelast (x :: l))) 0 = acc + x + sum (firstn j l).
Proof.
  induction l as [|a l IH]; intros acc x j H; simpl in H; [lia|].
  change (removelast (x :: a :: l)) with (x :: removelast (a :: l)).
  change (cumsum_from acc (x :: removelast (a :: l)))
    with ((acc + x) :: cumsum_from (acc + x) (removelast (a :: l))).
  destruct j.
  - cbn [nth firstn]. unfold sum; simpl. lia.
  - cbn [nth]. rewrite IH by lia. unfold sum; simpl. lia.
Qed.

Lemma cumsum_from_len : forall l acc, length (cumsum_from acc l) = length l.
Proof. induction l; intros; simpl; [reflexivity|]. rewrite IHl. reflexivity. Qed.

Lemma removelast_len : forall {A} (l : list A), length (removelast l) = length l - 1.
Proof.
  induction l as [|a l IH]; simpl; [reflexivity|]. destruct l; simpl in *; [reflexivity|]. lia.
Qed.

Section Domain.
  Variable S : Scalar.
  Notation stats_t := (list (colstats S)).

  Definition ncats (stats : stats_t) : list nat := map cs_ncat stats.

  Lemma emb_offset_length : forall stats : stats_t, length (emb_offset S stats) = length stats.
  Proof.
    intros. unfold emb_offset, cumsum, emb_num_categories_list.
    rewrite cumsum_from_len, removelast_len. simpl. rewrite map_length. lia.
  Qed.

  Lemma emb_offset_nth : forall (stats : stats_t) j,
      j < length stats -> nth j (emb_offset S stats) 0 = sum (firstn j (ncats stats)).
  Proof.
    intros. unfold emb_offset, cumsum, emb_num_categories_list.
    rewrite cumsum_removelast_nth by (rewrite map_length; assumption). reflexivity.
  Qed.

  Lemma emb_table_size_eq : forall stats : stats_t, emb_table_size S stats = sum (ncats stats) + 1.
  Proof. intros. unfold emb_table_size, emb_num_categories_list, sum. simpl. reflexivity. Qed.

  (* (a1) every categorical index the mapper emits for column j (x < number of categories
     of column j, or -1 for a missing cell) addresses a row of the shared table;
     non-missing cells never address the padding row, missing cells always do *)
  Lemma cat_index_in_table : forall (stats : stats_t) j x,
      j < length stats -> (-1 <= x < Z.of_nat (nth j (ncats stats) 0%nat))%Z ->
      let i := emb_index x (nth j (emb_offset S stats) 0) in
      (0 <= i < Z.of_nat (emb_table_size S stats))%Z /\
      ((0 <= x)%Z -> (1 <= i)%Z) /\ ((x < 0)%Z -> i = 0%Z).
  Proof.
    intros stats j x Hj Hx. simpl. unfold emb_index.
    rewrite emb_offset_nth, emb_table_size_eq by assumption.
    assert (Hl : j < length (ncats stats)) by (unfold ncats; rewrite map_length; assumption).
    pose proof (sum_firstn_S (ncats stats) j Hl) as H1.
    pose proof (sum_firstn_le (ncats stats) (Datatypes.S j)) as H2.
    destruct (x <? 0)%Z eqn:E; [apply Z.ltb_lt in E | apply Z.ltb_ge in E]; repeat split; lia.
  Qed.

  (* distinct (column, category) pairs address distinct rows: columns do not share embeddings *)
  Lemma cat_index_injective : forall (stats : stats_t) j x j' x',
      j < length stats -> j' < length stats ->
      (0 <= x < Z.of_nat (nth j (ncats stats) 0%nat))%Z -> (0 <= x' < Z.of_nat (nth j' (ncats stats) 0%nat))%Z ->
      emb_index x (nth j (emb_offset S stats) 0) = emb_index x' (nth j' (emb_offset S stats) 0) ->
      j = j' /\ x = x'.
  Proof.
    intros stats j x j' x' Hj Hj' Hx Hx' E. unfold emb_index in E.
    rewrite !emb_offset_nth in E by assumption.
    assert (Hl : j < length (ncats stats)) by (unfold ncats; rewrite map_length; assumption).
    assert (Hl' : j' < length (ncats stats)) by (unfold ncats; rewrite map_length; assumption).
    destruct (x <? 0)%Z eqn:E1; [apply Z.ltb_lt in E1; lia|].
    destruct (x' <? 0)%Z eqn:E2; [apply Z.ltb_lt in E2; lia|].
    pose proof (sum_firstn_S (ncats stats) j Hl) as H1.
    pose proof (sum_firstn_S (ncats stats) j' Hl') as H1'.
    destruct (Nat.lt_trichotomy j j') as [L | [L | L]].
    - pose proof (sum_firstn_mono (ncats stats) (Datatypes.S j) j' ltac:(lia)). lia.
    - subst j'. split; [reflexivity | lia].
    - pose proof (sum_firstn_mono (ncats stats) (Datatypes.S j') j ltac:(lia)). lia.
  Qed.

  (* (a2) multicategorical: index + 1 lies inside the column's own bag table of ncat + 1 rows *)
  Lemma bag_index_in_table : forall ncat z,
      (-1 <= z < Z.of_nat ncat)%Z -> (0 <= z + 1 < Z.of_nat (ncat + 1))%Z /\ ((z = -1)%Z <-> (z + 1 = 0)%Z).
  Proof. intros. lia. Qed.

  (* ... and so does the index the ZEROS strategy imputes (category 0), even for a column
     without any category *)
  Lemma bag_fill_in_table : forall ncat z,
      (-1 <= z < Z.of_nat ncat)%Z \/ z = 0%Z -> (0 <= z + 1 < Z.of_nat (bag_table_rows ncat))%Z.
  Proof. intros ncat z H. unfold bag_table_rows. lia. Qed.

  (* (a5) the start/end walk of LinearEmbeddingEncoder tiles a row of the value matrix exactly *)
  Lemma emb_walk_tiles : forall {A} dims start (row : list A),
      length row = start + sum dims ->
      concat (map (fun p => tslice row (fst p) (snd p)) (emb_walk start dims)) = skipn start row.
  Proof.
    intros A. induction dims as [|d dims IH]; intros start row H; simpl.
    - unfold sum in H; simpl in H. rewrite skipn_all2 by lia. reflexivity.
    - unfold tslice at 1. replace (start + d - start) with d by lia.
      rewrite IH by (unfold sum in *; simpl in *; lia).
      assert (E : skipn (start + d) row = skipn d (skipn start row)).
      { clear. revert row. induction start as [|s IHs]; intros row; simpl; [reflexivity|].
        destruct row; simpl; [rewrite !skipn_nil; reflexivity | apply IHs]. }
      rewrite E. apply firstn_skipn.
  Qed.

  Lemma emb_walk_widths : forall {A} dims start (row : list A),
      length row = start + sum dims ->
      map (fun p => length (tslice row (fst p) (snd p))) (emb_walk start dims) = dims.
  Proof.
    intros A. induction dims as [|d dims IH]; intros start row H; simpl; [reflexivity|].
    f_equal.
    - unfold tslice. rewrite firstn_length, skipn_length. unfold sum in H; simpl in H. lia.
    - apply IH. unfold sum in *; simpl in *. lia.
  Qed.

  Lemma emb_walk_length : forall dims start, length (emb_walk start dims) = length dims.
  Proof. induction dims; intros; simpl; [reflexivity|]. rewrite IHdims. reflexivity. Qed.
End Domain.

(* (a3) the fitted YEAR_RANGE bounds every year it was computed from *)
Lemma fold_min_le : forall l a y, (y = a \/ In y l) -> (fold_left Z.min l a <= y)%Z.
Proof.
  induction l as [|b l IH]; intros a y H; simpl.
  - destruct H as [-> | []]. lia.
  - destruct H as [Ha | [Hb | H]].
    + subst y. transitivity (Z.min a b); [apply IH; left; reflexivity | lia].
    + subst b. transitivity (Z.min a y); [apply IH; left; reflexivity | lia].
    + apply IH. right; assumption.
Qed.
Lemma fold_max_ge : forall l a y, (y = a \/ In y l) -> (y <= fold_left Z.max l a)%Z.
Proof.
  induction l as [|b l IH]; intros a y H; simpl.
  - destruct H as [-> | []]. lia.
  - destruct H as [Ha | [Hb | H]].
    + subst y. transitivity (Z.max a b); [lia | apply IH; left; reflexivity].
    + subst b. transitivity (Z.max a y); [lia | apply IH; left; reflexivity].
    + apply IH. right; assumption.
Qed.
Lemma year_in_fitted_range : forall ys lo hi y,
    year_range ys = Some (lo, hi) -> In y ys -> (0 <= y - lo)%Z /\ (y <= hi)%Z.
Proof.
  intros ys lo hi y H Hin. destruct ys as [|a l]; simpl in H; [discriminate|].
  inversion H; subst. destruct Hin as [Ha | Hin].
  - subst a. pose proof (fold_min_le l y y (or_introl eq_refl)). pose proof (fold_max_ge l y y (or_introl eq_refl)). lia.
  - pose proof (fold_min_le l a y (or_intror Hin)). pose proof (fold_max_ge l a y (or_intror Hin)). lia.
Qed.

(* (a4) calendar components against the generated normalisation constants.
   Finite table: proved by computation on Gen/Tables.v (time_to_index, cyclic_norm_constants). *)
Lemma calendar_table_ok :
  forallb (fun nb => match norm_constant_of (fst nb) with
                     | Some c => (0 <? c)%Z && (snd nb <=? c)%Z
                     | None => false
                     end) calendar_bounds = true
  /\ assoc_str time_to_index "YEAR"%string = Some 0
  /\ length cyclic_norm_constants = length calendar_bounds
  /\ length time_to_index = Datatypes.S (length cyclic_norm_constants).
Proof. vm_compute. repeat split; reflexivity. Qed.

Lemma unit_ok_iff : forall v c, unit_ok v c = true <-> (0 < c /\ 0 <= v <= c)%Z.
Proof.
  intros. unfold unit_ok. rewrite !andb_true_iff, Z.ltb_lt, !Z.leb_le. lia.
Qed.

Lemma cyclic_component_in_unit : forall name bound v,
    In (name, bound) calendar_bounds -> (0 <= v <= bound)%Z ->
    exists c, norm_constant_of name = Some c /\ unit_ok v c = true /\
              (0 <= inject_Z v / inject_Z c)%Q /\ (inject_Z v / inject_Z c <= 1)%Q.
Proof.
  intros name bound v Hin Hv.
  destruct calendar_table_ok as [T _]. rewrite forallb_forall in T. specialize (T _ Hin). simpl in T.
  destruct (norm_constant_of name) as [c|]; [|discriminate].
  apply andb_true_iff in T. destruct T as [T1 T2]. apply Z.ltb_lt in T1. apply Z.leb_le in T2.
  exists c. split; [reflexivity|]. split; [apply unit_ok_iff; lia|].
  assert (Hc : (0 < inject_Z c)%Q).
  { change (inject_Z 0 < inject_Z c)%Q. rewrite <- Zlt_Qlt. assumption. }
  split.
  - apply Qle_shift_div_l; [assumption|]. rewrite Qmult_0_l.
    change (inject_Z 0 <= inject_Z v)%Q. rewrite <- Zle_Qle. lia.
  - apply Qle_shift_div_r; [assumption|]. rewrite Qmult_1_l. rewrite <- Zle_Qle. lia.
Qed.

(* ===================================================================== 3 *)
Lemma map_zip_rowmap : forall {A B C D} c (h : B -> C -> D) (f : nat -> A -> B) (d : C) (ps : list C) (m : mat A),
    rect c m = true -> length ps = c ->
    map (fun row => zipWith h row ps) (map (rowmap c f) m)
    = map (rowmap c (fun j x => h (f j x) (nth j ps d))) m.
Proof.
  intros A B C D c h f d ps m R L. rewrite map_map. apply map_ext_in. intros row Hin.
  pose proof (proj1 (rect_forall c m) R row Hin) as Hl.
  rewrite (zipWith_rowmap h d) by (rewrite rowmap_length; auto).
  rewrite L, rowmap_rowmap. reflexivity.
Qed.

Lemma map_as_rowmap : forall {A B} c (g : A -> B) row, length row = c -> map g row = rowmap c (fun _ x => g x) row.
Proof.
  intros A B c g row H. unfold rowmap. subst c. generalize 0.
  induction row as [|x row IH]; intros k; simpl; [reflexivity|]. rewrite <- IH. reflexivity.
Qed.

Lemma map_map_rowmap : forall {A B C} c (g : B -> C) (f : nat -> A -> B) (m : mat A),
    map (map g) (map (rowmap c f) m) = map (rowmap c (fun j x => g (f j x))) m.
Proof. intros. rewrite map_map. apply map_ext. intros row. apply rowmap_map. Qed.

Lemma rowmap_id_mat : forall {A} c (m : mat A), rect c m = true -> map (rowmap c (fun _ x => x)) m = m.
Proof.
  intros A c m R. rewrite <- (map_id m) at 2. apply map_ext_in. intros row Hin.
  rewrite <- (map_as_rowmap c (fun x => x)); [apply map_id|]. apply (proj1 (rect_forall c m) R). assumption.
Qed.

Section Forms.
  Variable S : Scalar.
  Notation R := (car S).
  Notation XR := (X (car S)).
  Notation stats_t := (list (colstats S)).

  (* ---------------------------------------------------- strategy tables *)
  Lemma strategy_ok_num : forall s, strategy_ok st_numerical (Some s) = true -> na_is_numerical_strategy s = true.
  Proof. intros s H. unfold strategy_ok in H. simpl in H. destruct (na_is_numerical_strategy s); [reflexivity | discriminate]. Qed.
  Lemma strategy_ok_cat : forall s, strategy_ok st_categorical (Some s) = true -> na_is_categorical_strategy s = true.
  Proof. intros s H. unfold strategy_ok in H. simpl in H. destruct (na_is_categorical_strategy s); [reflexivity | discriminate]. Qed.
  Lemma strategy_ok_multicat : forall s,
      strategy_ok st_multicategorical (Some s) = true -> na_is_multicategorical_strategy s = true.
  Proof. intros s H. unfold strategy_ok in H. simpl in H. destruct (na_is_multicategorical_strategy s); [reflexivity | discriminate]. Qed.
  Lemma strategy_ok_time : forall s, strategy_ok st_timestamp (Some s) = true -> na_is_timestamp_strategy s = true.
  Proof. intros s H. unfold strategy_ok in H. simpl in H. destruct (na_is_timestamp_strategy s); [reflexivity | discriminate]. Qed.
  Lemma strategy_ok_emb : forall na, strategy_ok st_embedding na = true -> na = None.
  Proof. intros [s|] H; [|reflexivity]. unfold strategy_ok in H. simpl in H. discriminate. Qed.

  (* which fill each admissible strategy produces (finite tables: case analysis on the generated enum) *)
  Lemma as_num_fill : forall s (cs : colstats S),
      na_is_numerical_strategy s = true -> as_num S (fill_value S s cs) = Some (num_fill S s cs).
  Proof. intros s cs H. destruct s; simpl in H; try discriminate; reflexivity. Qed.
  Lemma as_idx_fill_cat : forall s (cs : colstats S),
      na_is_categorical_strategy s = true -> as_idx S (fill_value S s cs) = Some (idx_fill S s cs).
  Proof. intros s cs H. destruct s; simpl in H; try discriminate; reflexivity. Qed.
  Lemma as_idx_fill_multicat : forall s (cs : colstats S),
      na_is_multicategorical_strategy s = true -> as_idx S (fill_value S s cs) = Some (idx_fill S s cs).
  Proof. intros s cs H. destruct s; simpl in H; try discriminate; reflexivity. Qed.
  Lemma as_time_fill : forall s (cs : colstats S),
      na_is_timestamp_strategy s = true -> as_time S (fill_value S s cs) = Some (time_fill S s cs).
  Proof. intros s cs H. destruct s; simpl in H; try discriminate; reflexivity. Qed.

  Lemma fills_mapM : forall {T} (conv : fillv S -> option T) (tot : na_strategy -> colstats S -> T) s (stats : stats_t),
      (forall cs, conv (fill_value S s cs) = Some (tot s cs)) ->
      mapM conv (fill_values S s stats) = Some (map (tot s) stats).
  Proof.
    intros T conv tot s stats H. unfold fill_values. rewrite mapM_map'.
    rewrite <- mapM_total. apply mapM_ext_in. intros cs _. apply H.
  Qed.

  (* ------------------------------------------------ na_forward, per cell *)
  Lemma na_forward_num_form : forall na (stats : stats_t) m,
      strategy_ok st_numerical na = true ->
      na_forward_num S na stats m =
      match na with
      | None => Some m
      | Some s => if rect (length stats) m
                  then Some (map (rowmap (length stats)
                                         (fun j x => if xnan S x then num_fill S s (nth j stats (dstats S)) else x)) m)
                  else None
      end.
  Proof.
    intros [s|] stats m H; [|reflexivity]. unfold na_forward_num.
    rewrite (fills_mapM (as_num S) (num_fill S) s stats (fun cs => as_num_fill s cs (strategy_ok_num s H))).
    simpl. rewrite map_length. destruct (rect (length stats) m) eqn:R; [|reflexivity].
    f_equal. apply map_ext_in. intros row Hin.
    pose proof (proj1 (rect_forall _ m) R row Hin) as Hl.
    rewrite (zipWith_rowmap _ (num_fill S s (dstats S))) by (rewrite map_length; assumption).
    rewrite map_length. apply rowmap_ext. intros j x _. rewrite map_nth. reflexivity.
  Qed.

  Lemma na_forward_idx_form : forall na (stats : stats_t) m,
      (forall s, na = Some s -> forall cs, as_idx S (fill_value S s cs) = Some (idx_fill S s cs)) ->
      na_forward_idx S na stats m =
      match na with
      | None => Some m
      | Some s => if rect (length stats) m
                  then Some (map (rowmap (length stats)
                                         (fun j x => if (x =? -1)%Z then idx_fill S s (nth j stats (dstats S)) else x)) m)
                  else None
      end.
  Proof.
    intros [s|] stats m H; [|reflexivity]. unfold na_forward_idx.
    rewrite (fills_mapM (as_idx S) (idx_fill S) s stats (H s eq_refl)).
    simpl. rewrite map_length. destruct (rect (length stats) m) eqn:R; [|reflexivity].
    f_equal. apply map_ext_in. intros row Hin.
    pose proof (proj1 (rect_forall _ m) R row Hin) as Hl.
    rewrite (zipWith_rowmap _ (idx_fill S s (dstats S))) by (rewrite map_length; assumption).
    rewrite map_length. apply rowmap_ext. intros j x _. rewrite map_nth. reflexivity.
  Qed.

  Lemma na_forward_bag_form : forall na (stats : stats_t) m,
      (forall s, na = Some s -> forall cs, as_idx S (fill_value S s cs) = Some (idx_fill S s cs)) ->
      na_forward_bag S na stats m =
      match na with
      | None => Some m
      | Some s => if rect (length stats) m
                  then Some (map (rowmap (length stats)
                          (fun j cell => map (fun z => if (z =? -1)%Z then idx_fill S s (nth j stats (dstats S)) else z) cell)) m)
                  else None
      end.
  Proof.
    intros [s|] stats m H; [|reflexivity]. unfold na_forward_bag.
    rewrite (fills_mapM (as_idx S) (idx_fill S) s stats (H s eq_refl)).
    simpl. rewrite map_length. destruct (rect (length stats) m) eqn:R; [|reflexivity].
    f_equal. apply map_ext_in. intros row Hin.
    pose proof (proj1 (rect_forall _ m) R row Hin) as Hl.
    rewrite (zipWith_rowmap _ (idx_fill S s (dstats S))) by (rewrite map_length; assumption).
    rewrite map_length. apply rowmap_ext. intros j x _. rewrite map_nth. reflexivity.
  Qed.

  Lemma na_forward_time_form : forall na (stats : stats_t) m,
      strategy_ok st_timestamp na = true ->
      na_forward_time S na stats m =
      match na with
      | None => Some m
      | Some s => if rect (length stats) m
                  then Some (map (rowmap (length stats)
                          (fun j cell => if existsb (fun z => (z =? -1)%Z) cell
                                         then time_fill S s (nth j stats (dstats S)) else cell)) m)
                  else None
      end.
  Proof.
    intros [s|] stats m H; [|reflexivity]. unfold na_forward_time.
    rewrite (fills_mapM (as_time S) (time_fill S) s stats (fun cs => as_time_fill s cs (strategy_ok_time s H))).
    simpl. rewrite map_length. destruct (rect (length stats) m) eqn:R; [|reflexivity].
    f_equal. apply map_ext_in. intros row Hin.
    pose proof (proj1 (rect_forall _ m) R row Hin) as Hl.
    rewrite (zipWith_rowmap _ (time_fill S s (dstats S))) by (rewrite map_length; assumption).
    rewrite map_length. apply rowmap_ext. intros j x _. rewrite map_nth. reflexivity.
  Qed.

  (* ------------------------------------------------------- normalisation *)
  Lemma normalize_form : forall (stats : stats_t) feat,
      rect (length stats) feat = true ->
      normalize S stats feat = map (rowmap (length stats) (fun j x => norm_cell S (nth j stats (dstats S)) x)) feat.
  Proof.
    intros stats feat R. unfold normalize. apply map_ext_in. intros row Hin.
    pose proof (proj1 (rect_forall _ feat) R row Hin) as Hl.
    rewrite (zipWith_rowmap (xsub S) (cs_mean (dstats S)) row (means S stats))
      by (unfold means; rewrite map_length; assumption).
    unfold means at 1. rewrite map_length.
    rewrite (zipWith_rowmap (xdiv S) ((fun cs => xadd S (cs_std cs) (XFin (sc_eps6 S))) (dstats S)))
      by (unfold stds; rewrite map_length, rowmap_length; auto).
    unfold stds at 1. rewrite map_length, rowmap_rowmap.
    apply rowmap_ext. intros j x _. unfold norm_cell, means, stds.
    rewrite (map_nth cs_mean), (map_nth (fun cs => xadd S (cs_std cs) (XFin (sc_eps6 S)))). reflexivity.
  Qed.

  Lemma add_bias_form : forall {A} c (f : nat -> A -> list XR) (b : mat R) (m : mat A),
      rect c m = true -> length b = c ->
      add_bias S (map (rowmap c f) m) b = map (rowmap c (fun j x => zipWith (xadd S) (f j x) (fins S (nth j b [])))) m.
  Proof.
    intros. unfold add_bias.
    apply (map_zip_rowmap c (fun (v : list XR) (brow : list R) => zipWith (xadd S) v (fins S brow)) f []); assumption.
  Qed.

  Lemma einsum_form : forall {A} c ch (f : nat -> A -> list XR) (w : list (mat R)) (m : mat A),
      rect c m = true -> length w = c ->
      einsum_ijk_jkl S ch (map (rowmap c f) m) w = map (rowmap c (fun j x => vecmat S ch (f j x) (nth j w []))) m.
  Proof. intros. unfold einsum_ijk_jkl. apply (map_zip_rowmap c (vecmat S ch) f []); assumption. Qed.

  (* a numerical encoder given as a total per-cell map, behind na_forward *)
  Lemma num_pipeline : forall na (stats : stats_t) (E : mat XR -> option (list (mat XR))) (g : nat -> XR -> list XR) m,
      strategy_ok st_numerical na = true ->
      (forall feat, E feat = if rect (length stats) feat then Some (map (rowmap (length stats) g) feat) else None) ->
      obind (na_forward_num S na stats m) E
      = cw (length stats)
           (fun j v => match na_cell S na (nth j stats (dstats S)) v with
                       | CNum _ x => Some (g j x) | _ => None end)
           (map (map (CNum S)) m).
  Proof.
    intros na stats E g m Hok HE. rewrite cw_map_in, na_forward_num_form by assumption.
    destruct na as [s|]; simpl.
    - destruct (rect (length stats) m) eqn:R; simpl.
      + rewrite HE. rewrite (rect_map _ _ m) by (auto using rowmap_length).
        rewrite cw_total, R. f_equal. rewrite map_map. apply map_ext. intros row. apply rowmap_rowmap.
      + unfold cw. rewrite R. reflexivity.
    - rewrite HE, cw_total. reflexivity.
  Qed.
End Forms.

(* torch.stack(dim=1) of per-column results is the row-wise view *)
Lemma stack1_maps_gen : forall {A B J} (h : J -> A -> B) (js : list J) (m pre : list A),
    mapM (fun r => mapM (fun c => nth_error c r) (map (fun j => map (h j) (pre ++ m)) js))
         (seq (length pre) (length m))
    = Some (map (fun a => map (fun j => h j a) js) m).
Proof.
  intros A B J h js. induction m as [|a m IH]; intros pre; simpl; [reflexivity|].
  assert (H0 : mapM (fun c => nth_error c (length pre)) (map (fun j => map (h j) (pre ++ a :: m)) js)
               = Some (map (fun j => h j a) js)).
  { rewrite mapM_map'. rewrite <- mapM_total. apply mapM_ext_in. intros j _.
    rewrite map_app. rewrite nth_error_app2 by (rewrite map_length; lia).
    rewrite map_length, Nat.sub_diag. reflexivity. }
  rewrite H0.
  specialize (IH (pre ++ [a])). rewrite app_length in IH. simpl in IH.
  replace (length pre + 1) with (Datatypes.S (length pre)) in IH by lia.
  assert (E : forall j, map (h j) ((pre ++ [a]) ++ m) = map (h j) (pre ++ a :: m)).
  { intros j. rewrite <- app_assoc. reflexivity. }
  rewrite (mapM_ext_in _ (fun r => mapM (fun c => nth_error c r) (map (fun j => map (h j) (pre ++ a :: m)) js))) in IH.
  - rewrite IH. reflexivity.
  - intros r _. f_equal. apply map_ext. intros j. apply E.
Qed.

Lemma stack1_maps : forall {A B J} (h : J -> A -> B) (js : list J) (m : list A),
    stack1 (length m) (map (fun j => map (h j) m) js) = Some (map (fun a => map (fun j => h j a) js) m).
Proof. intros. unfold stack1. apply (stack1_maps_gen h js m []). Qed.

Section NumForms.
  Variable S : Scalar.
  Notation R := (car S).
  Notation XR := (X (car S)).
  Variable stats : list (colstats S).
  Notation C := (length stats).
  Notation ncell := (fun j x => norm_cell S (nth j stats (dstats S)) x).

  Lemma encode_linear_form : forall w b feat,
      length w = C -> length b = C ->
      encode_linear S stats w b feat =
      if rect C feat
      then Some (map (rowmap C (fun j x => zipWith (xadd S) (map (fun wv => xmul S (ncell j x) (XFin wv)) (nth j w []))
                                                   (fins S (nth j b [])))) feat)
      else None.
  Proof.
    intros w b feat Hw Hb. unfold encode_linear. destruct (rect C feat) eqn:R0; [|reflexivity]. f_equal.
    rewrite normalize_form by assumption.
    rewrite (map_zip_rowmap C (fun (x : XR) (wrow : list R) => map (fun wv => xmul S x (XFin wv)) wrow) _ [])
      by assumption.
    rewrite add_bias_form by assumption. reflexivity.
  Qed.

  Lemma encode_stack_form : forall ch feat,
      encode_stack S stats ch feat =
      if rect C feat then Some (map (rowmap C (fun j x => repeat (ncell j x) ch)) feat) else None.
  Proof.
    intros ch feat. unfold encode_stack. destruct (rect C feat) eqn:R0; [|reflexivity]. f_equal.
    rewrite normalize_form by assumption. rewrite map_map. apply map_ext. intros row. apply rowmap_map.
  Qed.

  Lemma affine_bc_form : forall w b feat,
      rect C feat = true -> length w = C -> length b = C ->
      affine_bc S w b (map (rowmap C ncell) feat)
      = map (rowmap C (fun j x => affine_cell S (nth j w []) (nth j b []) (ncell j x))) feat.
  Proof.
    intros w b feat R0 Hw Hb. unfold affine_bc.
    rewrite (map_zip_rowmap C (fun (x : XR) (wb : list R * list R) =>
                                 zipWith (fun wv bv => xadd S (xmul S (XFin wv) x) (XFin bv)) (fst wb) (snd wb))
                            _ ([], [])) by (auto; rewrite combine_length; lia).
    apply map_ext. intros row. apply rowmap_ext. intros j x _.
    rewrite combine_nth by lia. reflexivity.
  Qed.

  Lemma encode_excel_form : forall w1 b1 w2 b2 feat,
      length w1 = C -> length b1 = C -> length w2 = C -> length b2 = C ->
      encode_excel S stats w1 b1 w2 b2 feat =
      if rect C feat
      then Some (map (rowmap C (fun j x => zipWith (fun a c => xmul S (xl1 S (sc_tanh S) a) c)
                                             (affine_cell S (nth j w1 []) (nth j b1 []) (ncell j x))
                                             (affine_cell S (nth j w2 []) (nth j b2 []) (ncell j x)))) feat)
      else None.
  Proof.
    intros w1 b1 w2 b2 feat H1 H2 H3 H4. unfold encode_excel. destruct (rect C feat) eqn:R0; [|reflexivity]. f_equal.
    rewrite normalize_form by assumption.
    rewrite !affine_bc_form by assumption.
    rewrite zipWith_map_same. apply map_ext. intros row. apply rowmap_zip.
  Qed.

  Lemma encode_periodic_form : forall ch li lo feat,
      length li = C -> length lo = C ->
      encode_periodic S stats ch li lo feat =
      if rect C feat
      then Some (map (rowmap C (fun j x =>
             let two_pi := sc_mul S (sc_ofZ S 2) (sc_pi S) in
             let vs := map (fun lv => xmul S (XFin (sc_mul S two_pi lv)) (ncell j x)) (nth j li []) in
             vecmat S ch (map (xl1 S (sc_sin S)) vs ++ map (xl1 S (sc_cos S)) vs) (nth j lo []))) feat)
      else None.
  Proof.
    intros ch li lo feat H1 H2. unfold encode_periodic. destruct (rect C feat) eqn:R0; [|reflexivity]. f_equal.
    rewrite normalize_form by assumption.
    rewrite (map_zip_rowmap C (fun (x : XR) (lrow : list R) =>
                map (fun lv => xmul S (XFin (sc_mul S (sc_mul S (sc_ofZ S 2) (sc_pi S)) lv)) x) lrow) _ [])
      by assumption.
    rewrite map_map_rowmap. rewrite einsum_form by assumption. reflexivity.
  Qed.

  Lemma encode_bucket_form : forall ch w b feat,
      length w = C -> length b = C ->
      encode_bucket S stats ch w b feat =
      if rect C feat
      then Some (map (rowmap C (fun j x =>
             zipWith (xadd S) (vecmat S ch (bucket_cell S (cs_quant (nth j stats (dstats S))) x) (nth j w []))
                     (fins S (nth j b [])))) feat)
      else None.
  Proof.
    intros ch w b feat H1 H2. unfold encode_bucket. destruct (rect C feat) eqn:R0; [|reflexivity].
    rewrite (stack1_maps (fun i row => bucket_cell S (cs_quant (nth i stats (dstats S))) (nth i row XNaN))).
    simpl. f_equal.
    assert (E : map (fun a => map (fun j => bucket_cell S (cs_quant (nth j stats (dstats S))) (nth j a XNaN)) (seq 0 C)) feat
                = map (rowmap C (fun j x => bucket_cell S (cs_quant (nth j stats (dstats S))) x)) feat).
    { apply map_ext_in. intros row Hin.
      apply (rowmap_seq C (fun j x => bucket_cell S (cs_quant (nth j stats (dstats S))) x) XNaN).
      apply (proj1 (rect_forall _ feat) R0). assumption. }
    rewrite E. rewrite einsum_form by assumption. rewrite add_bias_form by assumption. reflexivity.
  Qed.
End NumForms.

(* ------------------------------------------------- index-valued encoders *)
Lemma mapM_id_map : forall {A B} (f : A -> option B) l, mapM f l = mapM (fun x => x) (map f l).
Proof. intros. rewrite mapM_map'. reflexivity. Qed.

Lemma mapM_combine_indexed : forall {A B C} (F : A -> B -> option C) (d : B) row ps,
    length row = length ps ->
    mapM (fun p => F (fst p) (snd p)) (combine row ps)
    = mapM (fun p => F (snd p) (nth (fst p) ps d)) (combine (seq 0 (length ps)) row).
Proof.
  intros A B C F d row ps H.
  rewrite (mapM_id_map (fun p => F (fst p) (snd p))).
  change (map (fun p => F (fst p) (snd p)) (combine row ps)) with (zipWith F row ps).
  rewrite (zipWith_rowmap F d) by assumption. unfold rowmap. rewrite mapM_map'. reflexivity.
Qed.

Lemma mapM_seq_indexed : forall {A C} (g : nat -> A -> option C) (d : A) c row,
    length row = c ->
    mapM (fun i => g i (nth i row d)) (seq 0 c) = mapM (fun p => g (fst p) (snd p)) (combine (seq 0 c) row).
Proof.
  intros A C g d c row H.
  rewrite (mapM_id_map (fun i => g i (nth i row d))).
  rewrite (rowmap_seq c g d row H). unfold rowmap. rewrite mapM_map'. reflexivity.
Qed.

Lemma mapM_cons_split : forall {J B} (a : J -> option B) (b : J -> option (list B)) js,
    mapM (fun i => match a i, b i with Some y, Some ys => Some (y :: ys) | _, _ => None end) js
    = match mapM a js, mapM b js with Some ys, Some yss => Some (zipWith cons ys yss) | _, _ => None end.
Proof.
  induction js as [|i js IH]; simpl; [reflexivity|].
  destruct (a i) as [y|]; simpl.
  - destruct (b i) as [ys|]; simpl.
    + rewrite IH. destruct (mapM a js); [|reflexivity]. destruct (mapM b js); reflexivity.
    + destruct (mapM a js); [|reflexivity]. reflexivity.
  - reflexivity.
Qed.

Lemma stack1_cons : forall {B} n (ys : list B) (yss : list (list B)),
    length ys = length yss ->
    stack1 (Datatypes.S n) (zipWith cons ys yss)
    = match stack1 n yss with Some rows => Some (ys :: rows) | None => None end.
Proof.
  intros B n ys yss H. unfold stack1. simpl seq. cbn [mapM].
  assert (H0 : mapM (fun c => nth_error c 0) (zipWith cons ys yss) = Some ys).
  { revert yss H. induction ys as [|y ys IH]; intros [|c yss] H; simpl in *; try discriminate; [reflexivity|].
    unfold zipWith in *. simpl. rewrite IH by lia. reflexivity. }
  rewrite H0. rewrite <- seq_shift, mapM_map'.
  assert (H1 : forall r, mapM (fun c => nth_error c (Datatypes.S r)) (zipWith cons ys yss)
                         = mapM (fun c => nth_error c r) yss).
  { intros r. clear H0. revert yss H. induction ys as [|y ys IH]; intros [|c yss] H; simpl in *; try discriminate; [reflexivity|].
    unfold zipWith in *. simpl. rewrite IH by lia. reflexivity. }
  rewrite (mapM_ext_in _ (fun r => mapM (fun c => nth_error c r) yss)) by (intros; apply H1).
  reflexivity.
Qed.

(* a loop over columns followed by stack(dim=1) is the row-wise evaluation, failures included *)
Lemma stack1_mapM : forall {A B J} (G : J -> A -> option B) (js : list J) (m : list A),
    obind (mapM (fun i => mapM (G i) m) js) (stack1 (length m))
    = mapM (fun row => mapM (fun i => G i row) js) m.
Proof.
  intros A B J G js. induction m as [|row m IH]; simpl.
  - rewrite mapM_total. reflexivity.
  - rewrite (mapM_cons_split (fun i => G i row) (fun i => mapM (G i) m)).
    destruct (mapM (fun i => G i row) js) as [ys|] eqn:E1; [|reflexivity].
    destruct (mapM (fun i => mapM (G i) m) js) as [yss|] eqn:E2; simpl in *.
    + rewrite stack1_cons by (rewrite (mapM_len _ _ _ E1), (mapM_len _ _ _ E2); reflexivity).
      rewrite IH. reflexivity.
    + rewrite <- IH. reflexivity.
Qed.

Lemma zipWith_map_l : forall {A A' B C} (f : A' -> B -> C) (g : A -> A') a b,
    zipWith f (map g a) b = zipWith (fun x y => f (g x) y) a b.
Proof.
  intros. unfold zipWith. revert b. induction a as [|x a IH]; intros [|y b]; simpl; try reflexivity.
  rewrite IH. reflexivity.
Qed.

Section IdxForms.
  Variable S : Scalar.
  Notation R := (car S).
  Notation XR := (X (car S)).
  Variable stats : list (colstats S).
  Notation C := (length stats).

  Lemma encode_embedding_form : forall table feat,
      encode_embedding S stats table feat
      = cw C (fun j z => embedding_lookup S table (emb_index z (nth j (emb_offset S stats) 0))) feat.
  Proof.
    intros table feat. unfold encode_embedding, cw. rewrite emb_offset_length.
    destruct (rect C feat) eqn:R0; [|reflexivity].
    apply mapM_ext_in. intros row Hin.
    pose proof (proj1 (rect_forall _ feat) R0 row Hin) as Hl.
    rewrite (mapM_combine_indexed (fun x off => embedding_lookup S table (emb_index x off)) 0)
      by (rewrite emb_offset_length; assumption).
    rewrite emb_offset_length. reflexivity.
  Qed.

  Lemma encode_bags_form : forall mode ch tables feat,
      length tables = C ->
      encode_bags S mode ch tables feat
      = cw C (fun j cell => embedding_bag S mode ch (nth j tables []) (map (fun z => (z + 1)%Z) cell)) feat.
  Proof.
    intros mode ch tables feat Ht. unfold encode_bags, cw. rewrite Ht.
    destruct (rect C feat) eqn:R0; [|reflexivity].
    rewrite (stack1_mapM (fun i row => embedding_bag S mode ch (nth i tables []) (map (fun z => (z + 1)%Z) (nth i row [])))).
    apply mapM_ext_in. intros row Hin.
    pose proof (proj1 (rect_forall _ feat) R0 row Hin) as Hl.
    apply (mapM_seq_indexed (fun i cell => embedding_bag S mode ch (nth i tables []) (map (fun z => (z + 1)%Z) cell)) []).
    assumption.
  Qed.

  Lemma emb_cells_rect : forall dims (values : mat XR), rect (length dims) (emb_cells S dims values) = true.
  Proof.
    intros. apply rect_forall. intros row Hin. unfold emb_cells in Hin.
    apply in_map_iff in Hin. destruct Hin as [r [<- _]]. rewrite map_length. apply emb_walk_length.
  Qed.

  Lemma encode_linemb_form : forall ch ws b values,
      length ws = C -> length b = C ->
      rect (sum (map cs_emb_dim stats)) values = true ->
      encode_linemb S stats ch ws b values
      = cw C (fun j v => Some (zipWith (xadd S) (vecmat S ch v (nth j ws [])) (fins S (nth j b []))))
           (emb_cells S (map cs_emb_dim stats) values).
  Proof.
    intros ch ws b values Hw Hb R0. unfold encode_linemb. rewrite R0.
    set (dims := map cs_emb_dim stats).
    assert (Hd : length dims = C) by (unfold dims; apply map_length).
    rewrite (stack1_maps (fun (p : (nat * nat) * mat R) (row : list XR) =>
                            vecmat S ch (tslice row (fst (fst p)) (snd (fst p))) (snd p))).
    simpl. rewrite cw_total. rewrite <- Hd at 1. rewrite emb_cells_rect. f_equal.
    assert (Hwalk : length (emb_walk 0 dims) = C) by (rewrite emb_walk_length; assumption).
    assert (E : map (fun row => map (fun p : (nat * nat) * mat R =>
                                       vecmat S ch (tslice row (fst (fst p)) (snd (fst p))) (snd p))
                                    (combine (emb_walk 0 dims) ws)) values
                = map (rowmap C (fun j v => vecmat S ch v (nth j ws []))) (emb_cells S dims values)).
    { unfold emb_cells. rewrite map_map. apply map_ext. intros row.
      change (map (fun p : (nat * nat) * mat R => vecmat S ch (tslice row (fst (fst p)) (snd (fst p))) (snd p))
                  (combine (emb_walk 0 dims) ws))
        with (zipWith (fun (se : nat * nat) (wm : mat R) => vecmat S ch (tslice row (fst se) (snd se)) wm)
                      (emb_walk 0 dims) ws).
      rewrite <- (zipWith_map_l (fun sl wm => vecmat S ch sl wm) (fun se : nat * nat => tslice row (fst se) (snd se))).
      rewrite (zipWith_rowmap (fun sl wm => vecmat S ch sl wm) []) by (rewrite map_length; lia).
      rewrite Hw. reflexivity. }
    rewrite E.
    assert (Rc : rect C (emb_cells S dims values) = true) by (rewrite <- Hd; apply emb_cells_rect).
    rewrite add_bias_form by assumption. reflexivity.
  Qed.
End IdxForms.

(* ------------------------------------------------------ TimestampEncoder *)
Lemma forallb_map' : forall {A B} (p : B -> bool) (h : A -> B) l, forallb p (map h l) = forallb (fun x => p (h x)) l.
Proof. induction l as [|x l IH]; simpl; [reflexivity|]. rewrite IH. reflexivity. Qed.

Lemma forallb_and2 : forall {A} (p q : A -> bool) l, forallb p l && forallb q l = forallb (fun x => p x && q x) l.
Proof.
  induction l as [|x l IH]; simpl; [reflexivity|]. rewrite <- IH.
  destruct (p x), (q x), (forallb p l), (forallb q l); reflexivity.
Qed.

Lemma forallb_ext_in : forall {A} (p q : A -> bool) l, (forall x, In x l -> p x = q x) -> forallb p l = forallb q l.
Proof.
  induction l as [|x l IH]; intros H; simpl; [reflexivity|].
  rewrite (H x (or_introl eq_refl)), IH; [reflexivity|]. intros; apply H; right; assumption.
Qed.

Lemma forallb_combine_snd : forall {A} (p : A -> bool) c row,
    length row = c -> forallb p row = forallb (fun q => p (snd q)) (combine (seq 0 c) row).
Proof.
  intros A p c row H. subst c. generalize 0.
  induction row as [|x row IH]; intros k; simpl; [reflexivity|]. rewrite <- IH. reflexivity.
Qed.

Lemma forallb_rowmap : forall {A B} c (p : B -> bool) (f : nat -> A -> B) (m : mat A),
    forallb (forallb p) (map (rowmap c f) m)
    = forallb (fun row => forallb (fun q => p (f (fst q) (snd q))) (combine (seq 0 c) row)) m.
Proof.
  intros. rewrite forallb_map'. apply forallb_ext_in. intros row _. unfold rowmap. apply forallb_map'.
Qed.

Lemma cw_guarded : forall {A B} c (ok : nat -> A -> bool) (g : nat -> A -> B) (m : mat A),
    cw c (fun j x => if ok j x then Some (g j x) else None) m
    = if rect c m
      then if forallb (fun row => forallb (fun p => ok (fst p) (snd p)) (combine (seq 0 c) row)) m
           then Some (map (rowmap c g) m) else None
      else None.
Proof.
  intros A B c ok g m. unfold cw. destruct (rect c m); [|reflexivity].
  assert (Hrow : forall l : list (nat * A),
             mapM (fun p => if ok (fst p) (snd p) then Some (g (fst p) (snd p)) else None) l
             = if forallb (fun p => ok (fst p) (snd p)) l then Some (map (fun p => g (fst p) (snd p)) l) else None).
  { induction l as [|p l IH]; simpl; [reflexivity|].
    destruct (ok (fst p) (snd p)); simpl; [|reflexivity]. rewrite IH.
    destruct (forallb (fun p0 => ok (fst p0) (snd p0)) l); reflexivity. }
  induction m as [|row m IH]; simpl; [reflexivity|].
  rewrite Hrow. destruct (forallb (fun p => ok (fst p) (snd p)) (combine (seq 0 c) row)); simpl; [|reflexivity].
  rewrite IH. destruct (forallb _ m); reflexivity.
Qed.

Section TimeForm.
  Variable S : Scalar.
  Notation R := (car S).
  Notation XR := (X (car S)).
  Variable stats : list (colstats S).
  Notation C := (length stats).

  Definition time_ok (consts : list Z) (j : nat) (cell : list Z) : bool :=
    negb (length cell =? 0)
    && ((0 <=? hd 0%Z cell - cs_year_min (nth j stats (dstats S)))%Z
        && ((length (tl cell) =? length consts)
            && forallb (fun p => unit_ok (fst p) (snd p)) (combine (tl cell) consts))).

  Definition time_val (ch half : nat) (pm : list R) (w : list (list (mat R))) (b : mat R) (consts : list Z)
             (j : nat) (cell : list Z) : list XR :=
    zipWith (xadd S)
            (contract_kl S ch
               (positional S pm (xofZ S (hd 0%Z cell - cs_year_min (nth j stats (dstats S)))%Z)
                :: map (fun p => cyclic S half (xdiv S (xofZ S (fst p)) (xofZ S (snd p)))) (combine (tl cell) consts))
               (nth j w []))
            (fins S (nth j b [])).

  Lemma time_cell_guard : forall ch half pm w b consts j cell,
      time_cell S (nth j stats (dstats S)) ch half pm (nth j w []) (nth j b []) consts cell
      = if time_ok consts j cell then Some (time_val ch half pm w b consts j cell) else None.
  Proof.
    intros. unfold time_cell, time_ok, time_val. destruct cell as [|y rest]; simpl; reflexivity.
  Qed.

  Lemma encode_timestamp_form : forall ch half pm w b consts feat,
      length w = C -> length b = C ->
      encode_timestamp S stats ch half pm w b consts feat
      = cw C (fun j cell => time_cell S (nth j stats (dstats S)) ch half pm (nth j w []) (nth j b []) consts cell) feat.
  Proof.
    intros ch half pm w b consts feat Hw Hb.
    rewrite (cw_ext_fun _ _ (fun j cell => if time_ok consts j cell
                                           then Some (time_val ch half pm w b consts j cell) else None))
      by (intros; apply time_cell_guard).
    rewrite cw_guarded. unfold encode_timestamp.
    destruct (rect C feat) eqn:R0; [|reflexivity].
    (* the derived tensors, row-wise *)
    assert (Ey : map (fun row => zipWith (fun cell my => (hd 0%Z cell - my)%Z) row (map cs_year_min stats)) feat
                 = map (rowmap C (fun j cell => (hd 0%Z cell - cs_year_min (nth j stats (dstats S)))%Z)) feat).
    { apply map_ext_in. intros row Hin.
      pose proof (proj1 (rect_forall _ feat) R0 row Hin) as Hl.
      rewrite (zipWith_rowmap _ (cs_year_min (dstats S))) by (rewrite map_length; assumption).
      rewrite map_length. apply rowmap_ext. intros j x _. rewrite (map_nth cs_year_min). reflexivity. }
    assert (Er : map (map (@tl Z)) feat = map (rowmap C (fun _ cell => tl cell)) feat).
    { apply map_ext_in. intros row Hin. apply map_as_rowmap. apply (proj1 (rect_forall _ feat) R0). assumption. }
    rewrite Ey, Er.
    (* the three global assertions are the conjunction of the per-cell checks *)
    assert (Echk : forallb (forallb (fun cell : list Z => negb (length cell =? 0))) feat
                   && positional_ok (map (rowmap C (fun j cell => (hd 0%Z cell - cs_year_min (nth j stats (dstats S)))%Z)) feat)
                   && cyclic_ok (map (rowmap C (fun _ cell => tl cell)) feat) consts
                   = forallb (fun row => forallb (fun p => time_ok consts (fst p) (snd p)) (combine (seq 0 C) row)) feat).
    { unfold positional_ok, cyclic_ok. rewrite !forallb_rowmap.
      rewrite (forallb_ext_in (forallb (fun cell : list Z => negb (length cell =? 0)))
                              (fun row => forallb (fun q => negb (length (snd q) =? 0)) (combine (seq 0 C) row)))
        by (intros row Hin; apply (forallb_combine_snd (fun cell : list Z => negb (length cell =? 0))); apply (proj1 (rect_forall _ feat) R0); assumption).
      rewrite forallb_and2, forallb_and2. apply forallb_ext_in. intros row _.
      rewrite forallb_and2, forallb_and2. apply forallb_ext_in. intros [j cell] _. unfold time_ok. simpl.
      rewrite <- !andb_assoc. reflexivity. }
    rewrite Echk. clear Echk.
    match goal with |- (if ?bb then _ else _) = _ => destruct bb end; [|reflexivity]. f_equal.
    rewrite zipWith_map_same.
    assert (Ex : map (fun row => zipWith (fun (y : Z) (cell : list Z) =>
                                           positional S pm (xofZ S y)
                                           :: map (fun p => cyclic S half (xdiv S (xofZ S (fst p)) (xofZ S (snd p))))
                                                  (combine cell consts))
                                        (rowmap C (fun j cell => (hd 0%Z cell - cs_year_min (nth j stats (dstats S)))%Z) row)
                                        (rowmap C (fun _ cell => tl cell) row)) feat
                 = map (rowmap C (fun j cell =>
                          positional S pm (xofZ S (hd 0%Z cell - cs_year_min (nth j stats (dstats S)))%Z)
                          :: map (fun p => cyclic S half (xdiv S (xofZ S (fst p)) (xofZ S (snd p))))
                                 (combine (tl cell) consts))) feat).
    { apply map_ext. intros row.
      apply (rowmap_zip C (fun (y : Z) (cell : list Z) =>
                             positional S pm (xofZ S y)
                             :: map (fun p => cyclic S half (xdiv S (xofZ S (fst p)) (xofZ S (snd p))))
                                    (combine cell consts))
                        (fun j (cell : list Z) => (hd 0%Z cell - cs_year_min (nth j stats (dstats S)))%Z)
                        (fun _ (cell : list Z) => tl cell)). }
    rewrite Ex.
    rewrite (map_zip_rowmap C (contract_kl S ch) _ []) by assumption.
    rewrite add_bias_form by assumption. reflexivity.
  Qed.
End TimeForm.

(* =============================================================== top level *)
Lemma na_pipeline : forall {A B} c (f : nat -> A -> option B) (E : mat A -> option (mat B))
                           (na : option na_strategy) (g : na_strategy -> nat -> A -> A) (m : mat A),
    (forall feat, E feat = cw c f feat) ->
    obind (match na with
           | None => Some m
           | Some s => if rect c m then Some (map (rowmap c (g s)) m) else None
           end) E
    = cw c (fun j x => f j (match na with None => x | Some s => g s j x end)) m.
Proof.
  intros A B c f E na g m HE. destruct na as [s|]; simpl.
  - destruct (rect c m) eqn:R0; simpl.
    + rewrite HE. apply cw_of_rowmap. assumption.
    + unfold cw. rewrite R0. reflexivity.
  - apply HE.
Qed.

Lemma cw_of_total : forall {A B} c (g : nat -> A -> B) (E : mat A -> option (mat B)),
    (forall feat, E feat = if rect c feat then Some (map (rowmap c g) feat) else None) ->
    forall feat, E feat = cw c (fun j x => Some (g j x)) feat.
Proof. intros. rewrite cw_total. apply H. Qed.

Section Top.
  Variable S : Scalar.
  Notation R := (car S).
  Notation XR := (X (car S)).

  Definition forward_with (post : list XR -> list XR) (c : config S) (x : input S) : option (list (mat XR)) :=
    if construct_ok S c then option_map (finish S post) (encode S c x) else None.

  Lemma forward_is_with : forall c x, forward S c x = forward_with (cf_post S c) c x.
  Proof. reflexivity. Qed.
  Lemma pre_post_is_with : forall c x, pre_post S c x = forward_with (fun v => v) c x.
  Proof. reflexivity. Qed.

  Ltac close_case na :=
    match goal with |- context [option_map (finish S ?post) (cw ?c ?f ?m)] =>
      change (finish S post) with (map (map (fun v : list XR => post (map (nan_to_num S) v))));
      rewrite (cw_post c _ (fun v : list XR => post (map (nan_to_num S) v)) m) end; rewrite cw_map_in; apply cw_ext_fun;
    intros j v; unfold cell_fn; simpl; destruct na; reflexivity.

  Theorem forward_with_cellwise : forall post (c : config S) (x : input S),
      wf_config S c -> input_ok S c x ->
      forward_with post c x =
      if construct_ok S c then cw (ncols S c) (cell_fn S c post) (cells S (cf_stats S c) x) else None.
  Proof.
    intros post c x Hwf Hin. unfold forward_with. destruct (construct_ok S c) eqn:Hok; [|reflexivity].
    unfold construct_ok in Hok. unfold wf_config, ncols in *. unfold input_ok in Hin. unfold encode.
    destruct c as [e st ch na cpost]. simpl in *.
    destruct e; destruct x; simpl in *; try contradiction.
    - (* Linear *) destruct Hwf as [Hw Hb].
      rewrite na_forward_num_form by assumption.
      rewrite (na_pipeline (length st) _ (encode_linear S st w b) na
                 (fun s j x => if xnan S x then num_fill S s (nth j st (dstats S)) else x))
        by (apply cw_of_total; intros; apply encode_linear_form; assumption).
      close_case na.
    - (* Stack *)
      rewrite na_forward_num_form by assumption.
      rewrite (na_pipeline (length st) _ (encode_stack S st ch) na
                 (fun s j x => if xnan S x then num_fill S s (nth j st (dstats S)) else x))
        by (apply cw_of_total; intros; apply encode_stack_form).
      close_case na.
    - (* ExcelFormer *) destruct Hwf as [H1 [H2 [H3 H4]]].
      rewrite na_forward_num_form by assumption.
      rewrite (na_pipeline (length st) _ (encode_excel S st w1 b1 w2 b2) na
                 (fun s j x => if xnan S x then num_fill S s (nth j st (dstats S)) else x))
        by (apply cw_of_total; intros; apply encode_excel_form; assumption).
      close_case na.
    - (* Periodic *) destruct Hwf as [H1 H2].
      rewrite na_forward_num_form by assumption.
      rewrite (na_pipeline (length st) _ (encode_periodic S st ch lin_in lin_out) na
                 (fun s j x => if xnan S x then num_fill S s (nth j st (dstats S)) else x))
        by (apply cw_of_total; intros; apply encode_periodic_form; assumption).
      close_case na.
    - (* Bucket *) destruct Hwf as [H1 H2].
      rewrite na_forward_num_form by assumption.
      rewrite (na_pipeline (length st) _ (encode_bucket S st ch w b) na
                 (fun s j x => if xnan S x then num_fill S s (nth j st (dstats S)) else x))
        by (apply cw_of_total; intros; apply encode_bucket_form; assumption).
      close_case na.
    - (* Embedding *)
      rewrite na_forward_idx_form
        by (intros s -> cs; apply as_idx_fill_cat; apply strategy_ok_cat; assumption).
      rewrite (na_pipeline (length st) _ (encode_embedding S st table) na
                 (fun s j x => if (x =? -1)%Z then idx_fill S s (nth j st (dstats S)) else x))
        by (intros; apply encode_embedding_form).
      close_case na.
    - (* Bags *)
      rewrite na_forward_bag_form
        by (intros s -> cs; apply as_idx_fill_multicat; apply strategy_ok_multicat; assumption).
      rewrite (na_pipeline (length st) _ (encode_bags S mode ch tables) na
                 (fun s j cell => map (fun z => if (z =? -1)%Z then idx_fill S s (nth j st (dstats S)) else z) cell))
        by (intros; apply encode_bags_form; assumption).
      close_case na.
    - (* LinearEmbedding *) destruct Hwf as [H1 H2].
      rewrite encode_linemb_form by assumption.
      match goal with |- context [option_map (finish S ?post) (cw ?c ?f ?m)] =>
        change (finish S post) with (map (map (fun v : list XR => post (map (nan_to_num S) v))));
        rewrite (cw_post c _ (fun v : list XR => post (map (nan_to_num S) v)) m) end.
      rewrite cw_map_in. apply cw_ext_fun.
      intros j v. unfold cell_fn. simpl. rewrite (strategy_ok_emb na Hok). reflexivity.
    - (* Timestamp *) destruct Hwf as [H1 H2].
      rewrite na_forward_time_form by assumption.
      rewrite (na_pipeline (length st) _ (encode_timestamp S st ch half pe_mult w b cyclic_norm_constants) na
                 (fun s j cell => if existsb (fun z => (z =? -1)%Z) cell
                                  then time_fill S s (nth j st (dstats S)) else cell))
        by (intros; apply encode_timestamp_form; assumption).
      close_case na.
  Qed.
End Top.

(* ============================================================ corollaries *)
Section Corollaries.
  Variable S : Scalar.
  Notation R := (car S).
  Notation XR := (X (car S)).

  (* --- row selection at input level *)
  Lemma tgather_map : forall {A B} (f : A -> B) (l : list A) idx,
      tgather (map f l) idx = option_map (map f) (tgather l idx).
  Proof.
    intros. unfold tgather, tget. induction idx as [|i idx IH]; simpl; [reflexivity|].
    rewrite nth_error_map. destruct (nth_error l i); simpl; [|reflexivity].
    rewrite IH. destruct (mapM (nth_error l) idx); reflexivity.
  Qed.

  Lemma cells_select : forall stats (x x' : input S) idx,
      select_rows S x idx = Some x' -> tgather (cells S stats x) idx = Some (cells S stats x').
  Proof.
    intros stats x x' idx H. destruct x; simpl in *;
      destruct (tgather m idx) as [sel|] eqn:E; simpl in H; try discriminate; inversion H; subst; simpl;
        try (rewrite tgather_map, E; reflexivity).
    unfold emb_cells. rewrite !tgather_map, E. reflexivity.
  Qed.

  Lemma tgather_rect : forall {A} c (m sel : mat A) idx,
      rect c m = true -> tgather m idx = Some sel -> rect c sel = true.
  Proof.
    intros A c m sel idx R0 H. apply rect_forall. intros row Hin.
    apply In_nth_error in Hin. destruct Hin as [k Hk].
    unfold tgather, tget in H. destruct (mapM_nth_inv _ _ _ _ _ H Hk) as [i [_ Hi]].
    apply (proj1 (rect_forall c m) R0). eapply nth_error_In; eauto.
  Qed.

  Lemma input_ok_select : forall c (x x' : input S) idx,
      input_ok S c x -> select_rows S x idx = Some x' -> input_ok S c x'.
  Proof.
    intros c x x' idx H Hs. unfold input_ok in *.
    destruct (cf_enc S c); destruct x; simpl in *; try contradiction;
      destruct (tgather m idx) as [sel|] eqn:E; simpl in Hs; try discriminate; inversion Hs; subst; auto.
    eapply tgather_rect; eauto.
  Qed.

  (* permuting / selecting / duplicating rows of the input does the same to the output *)
  Theorem forward_with_select : forall post c (x x' : input S) idx o,
      wf_config S c -> input_ok S c x ->
      forward_with S post c x = Some o -> select_rows S x idx = Some x' ->
      forward_with S post c x' = tgather o idx.
  Proof.
    intros post c x x' idx o Hwf Hin Hf Hs.
    rewrite forward_with_cellwise in * by (eauto using input_ok_select).
    destruct (construct_ok S c); [|discriminate].
    eapply cw_gather; eauto. apply cells_select. assumption.
  Qed.

  (* changing one cell changes only that cell's embedding *)
  Theorem forward_with_local : forall post c (x x' : input S) o o' r j,
      wf_config S c -> input_ok S c x -> input_ok S c x' ->
      forward_with S post c x = Some o -> forward_with S post c x' = Some o' ->
      (forall r' j', (r', j') <> (r, j) ->
                     get2 (cells S (cf_stats S c) x') r' j' = get2 (cells S (cf_stats S c) x) r' j') ->
      forall r' j', (r', j') <> (r, j) -> get2 o' r' j' = get2 o r' j'.
  Proof.
    intros post c x x' o o' r j Hwf Hin Hin' Hf Hf' Hsame.
    rewrite forward_with_cellwise in * by assumption.
    destruct (construct_ok S c); [|discriminate].
    eapply cw_local; eauto.
  Qed.

  (* the embedding of cell (r, j) is cell_fn applied to that cell alone *)
  Theorem forward_with_cell : forall post c (x : input S) o r j v,
      wf_config S c -> input_ok S c x -> forward_with S post c x = Some o ->
      get2 (cells S (cf_stats S c) x) r j = Some v ->
      exists y, get2 o r j = Some y /\ cell_fn S c post j v = Some y.
  Proof.
    intros post c x o r j v Hwf Hin Hf Hg.
    rewrite forward_with_cellwise in Hf by assumption.
    destruct (construct_ok S c); [|discriminate].
    eapply cw_get2; eauto.
  Qed.

  (* --- the cell function reads column j's statistics only *)
  Theorem cell_fn_stats_local : forall post e ch na cpost (st st' : list (colstats S)) j v,
      nth j st (dstats S) = nth j st' (dstats S) ->
      nth j (emb_offset S st) 0 = nth j (emb_offset S st') 0 ->
      cell_fn S (Build_config S e st ch na cpost) post j v = cell_fn S (Build_config S e st' ch na cpost) post j v.
  Proof.
    intros post e ch na cpost st st' j v H1 H2. unfold cell_fn. simpl. rewrite H1.
    destruct e; destruct (na_cell S na (nth j st' (dstats S)) v); simpl; rewrite ?H1, ?H2; reflexivity.
  Qed.

  (* --- NA strategy = imputation with that column's statistic *)
  Theorem cell_fn_na_equiv : forall post c j v,
      cell_fn S c post j v
      = cell_fn S (set_na_none S c) post j (na_cell S (cf_na S c) (nth j (cf_stats S c) (dstats S)) v).
  Proof. intros. unfold cell_fn, set_na_none. simpl. reflexivity. Qed.

  Lemma construct_ok_none : forall c, construct_ok S (set_na_none S c) = true.
  Proof. intros. unfold construct_ok, set_na_none. simpl. reflexivity. Qed.

  Theorem forward_with_na_equiv : forall post c (x x' : input S),
      wf_config S c -> input_ok S c x -> input_ok S c x' ->
      construct_ok S c = true ->
      rect (ncols S c) (cells S (cf_stats S c) x) = true ->
      cells S (cf_stats S c) x' = impute_cells S c (cells S (cf_stats S c) x) ->
      forward_with S post c x = forward_with S post (set_na_none S c) x'.
  Proof.
    intros post c x x' Hwf Hin Hin' Hok Hr Hc.
    rewrite (forward_with_cellwise S post c x) by assumption.
    rewrite (forward_with_cellwise S post (set_na_none S c) x') by assumption.
    rewrite Hok, construct_ok_none.
    change (cf_stats S (set_na_none S c)) with (cf_stats S c). rewrite Hc.
    change (ncols S (set_na_none S c)) with (ncols S c).
    unfold impute_cells.
    change (map (fun row => map (fun p => na_cell S (cf_na S c) (nth (fst p) (cf_stats S c) (dstats S)) (snd p))
                                (combine (seq 0 (ncols S c)) row)) (cells S (cf_stats S c) x))
      with (map (rowmap (ncols S c) (fun j v => na_cell S (cf_na S c) (nth j (cf_stats S c) (dstats S)) v))
                (cells S (cf_stats S c) x)).
    rewrite cw_of_rowmap by assumption.
    apply cw_ext_fun. intros j v. apply cell_fn_na_equiv.
  Qed.

  (* --- NaN absorption *)
  Lemma xsum_nan_acc : forall l, fold_left (xadd S) l XNaN = XNaN.
  Proof. induction l as [|a l IH]; simpl; [reflexivity|]. exact IH. Qed.

  Lemma xsum_has_nan : forall l, In XNaN l -> xsum S l = XNaN.
  Proof.
    intros l H. unfold xsum. generalize (x0 S). induction l as [|a l IH]; intros acc; simpl; [contradiction|].
    destruct H as [-> | H].
    - destruct acc; simpl; apply xsum_nan_acc.
    - apply IH. assumption.
  Qed.

  Lemma zipWith_nan_l : forall {B} (g : XR -> B -> XR) n (l : list B),
      (forall y, g XNaN y = XNaN) -> zipWith g (repeat XNaN n) l = repeat XNaN (Nat.min n (length l)).
  Proof.
    intros B g n l H. unfold zipWith. revert l. induction n as [|n IH]; intros [|y l]; simpl; try reflexivity.
    rewrite H, IH. reflexivity.
  Qed.

  Lemma map_const_repeat : forall {A B} (b : B) (l : list A), map (fun _ => b) l = repeat b (length l).
  Proof. induction l; simpl; [reflexivity|]. rewrite IHl. reflexivity. Qed.

  Lemma map_repeat' : forall {A B} (f : A -> B) a n, map f (repeat a n) = repeat (f a) n.
  Proof. induction n; simpl; [reflexivity|]. rewrite IHn. reflexivity. Qed.

  Lemma nan_plus_bias : forall ch (b : list R),
      length b = ch -> map (nan_to_num S) (zipWith (xadd S) (repeat XNaN ch) (fins S b)) = repeat (x0 S) ch.
  Proof.
    intros ch b H. rewrite zipWith_nan_l by reflexivity. unfold fins. rewrite map_length, H, Nat.min_id.
    rewrite map_repeat'. reflexivity.
  Qed.

  (* a sum with a NaN term, over any number of channels *)
  Lemma vecmat_nan : forall ch (vec : list XR) (w : mat R) k,
      nth_error vec k = Some XNaN -> k < length w -> vecmat S ch vec w = repeat XNaN ch.
  Proof.
    intros ch vec w k Hk Hw. unfold vecmat. rewrite <- (seq_length ch 0) at 2. rewrite <- map_const_repeat.
    apply map_ext. intros l. apply xsum_has_nan.
    destruct (nth_error w k) as [wrow|] eqn:Ew; [|apply nth_error_None in Ew; lia].
    assert (Hc : nth_error (combine vec w) k = Some (XNaN, wrow)).
    { clear Hw. revert vec w Hk Ew. induction k as [|k IH]; intros [|v vec] [|r w] Hk Ew; simpl in *; try discriminate.
      - inversion Hk; inversion Ew; subst. reflexivity.
      - apply IH; assumption. }
    unfold zipWith. apply (nth_error_In _ k). rewrite nth_error_map, Hc. reflexivity.
  Qed.

  Lemma nan_to_num_xsum_repeat_nan : forall k, nan_to_num S (xsum S (repeat XNaN k)) = x0 S.
  Proof.
    intros [|k]; simpl; [reflexivity|]. rewrite xsum_has_nan by (left; reflexivity). reflexivity.
  Qed.

  Lemma norm_cell_nan : forall cs, norm_cell S cs XNaN = XNaN.
  Proof. reflexivity. Qed.

  Lemma nth_error_set_nth : forall {A} (l : list A) i v, i < length l -> nth_error (set_nth l i v) i = Some v.
  Proof.
    induction l as [|a l IH]; intros i v H; simpl in *; [lia|].
    destruct i; simpl; [reflexivity|]. apply IH. lia.
  Qed.

  (* without an NA strategy a missing cell is embedded as the all-zero vector, before the post-module *)
  Theorem na_none_zero : forall c j v,
      cf_na S c = None -> cell_shape_ok S c j v -> missing_cell S v = true ->
      cell_fn S c (fun o => o) j v = Some (repeat (x0 S) (cf_channels S c)).
  Proof.
    intros c j v Hna Hs Hm. unfold cell_fn, cell_shape_ok in *. rewrite Hna. simpl na_cell.
    destruct c as [e st ch na cpost]. simpl in *.
    destruct e; destruct v; simpl in *; try contradiction.
    - (* Linear *) destruct x; [discriminate|]. destruct Hs as [Hw Hb]. f_equal.
      rewrite (map_ext (fun wv : R => xmul S (norm_cell S (nth j st (dstats S)) XNaN) (XFin wv)) (fun _ => XNaN))
        by reflexivity.
      rewrite map_const_repeat, Hw. apply nan_plus_bias. assumption.
    - (* Stack *) destruct x; [discriminate|]. f_equal. simpl. rewrite map_repeat'. reflexivity.
    - (* Excel *) destruct x; [discriminate|]. destruct Hs as [H1 [H2 [H3 H4]]]. f_equal.
      unfold affine_cell. simpl.
      assert (Ha : forall (w b : list R), length w = ch -> length b = ch ->
                     zipWith (fun wv bv => xadd S (xmul S (XFin wv) XNaN) (XFin bv)) w b = repeat XNaN ch).
      { intros w b Hw Hb. unfold zipWith. rewrite (map_ext _ (fun _ => XNaN)) by reflexivity.
        rewrite map_const_repeat, combine_length, Hw, Hb, Nat.min_id. reflexivity. }
      rewrite !Ha by assumption.
      rewrite zipWith_nan_l by reflexivity. rewrite repeat_length, Nat.min_id. rewrite map_repeat'. reflexivity.
    - (* Periodic *) destruct x; [discriminate|]. f_equal. simpl.
      unfold vecmat. rewrite map_map.
      rewrite (map_ext _ (fun _ => x0 S)); [rewrite map_const_repeat, seq_length; reflexivity|].
      intros l.
      rewrite map_const_repeat, !map_repeat'. simpl xl1. rewrite <- repeat_app.
      rewrite zipWith_nan_l by reflexivity.
      apply nan_to_num_xsum_repeat_nan.
    - (* Bucket *) destruct x; [discriminate|]. destruct Hs as [Hq [Hw Hb]]. f_equal.
      set (q := cs_quant (nth j st (dstats S))) in *.
      assert (Hv : vecmat S ch (bucket_cell S q XNaN) (nth j w []) = repeat XNaN ch).
      { apply (vecmat_nan ch _ _ (length q - 2)); [|lia].
        unfold bucket_cell. simpl bucketize.
        assert (Hi : length (removelast (tl q)) = length q - 2).
        { rewrite removelast_len. destruct q; simpl; lia. }
        rewrite Hi. apply nth_error_set_nth. rewrite map_length, removelast_len. lia. }
      rewrite Hv. apply nan_plus_bias. assumption.
    - (* Embedding *) apply Z.eqb_eq in Hm. subst z.
      unfold emb_index, embedding_lookup. simpl. rewrite Hs. simpl. f_equal.
      unfold fins. rewrite !map_repeat'. reflexivity.
    - (* Bags *) destruct l as [|z [|z' l]]; try discriminate. apply Z.eqb_eq in Hm. subst z.
      simpl. f_equal. rewrite map_repeat'. reflexivity.
    - (* LinearEmbedding *) destruct Hs as [Hw Hb]. f_equal.
      assert (Hk : exists k, nth_error v k = Some XNaN).
      { apply existsb_exists in Hm. destruct Hm as [a [Hin Ha]]. destruct a; [discriminate|].
        apply In_nth_error. assumption. }
      destruct Hk as [k Hk].
      rewrite (vecmat_nan ch v _ k Hk) by (rewrite Hw; apply nth_error_Some; congruence).
      apply nan_plus_bias. assumption.
  Qed.

  (* --- the timestamp encoder's documented limitation (finding D10) *)
  Lemma missing_time_cell_fails : forall cs ch half pm wj bj,
      time_cell S cs ch half pm wj bj cyclic_norm_constants (repeat (-1)%Z (length time_to_index)) = None.
  Proof.
    intros. unfold time_cell. simpl repeat. cbv beta iota.
    match goal with |- context [forallb ?f ?l] =>
      assert (H : forallb f l = false) by (vm_compute; reflexivity); rewrite H end.
    rewrite !andb_false_r. reflexivity.
  Qed.

  Theorem timestamp_none_missing_raises : forall post half pm w b st ch cpost (m : mat (list Z)) r j,
      let c := Build_config S (ETimestamp S half pm w b) st ch None cpost in
      wf_config S c ->
      get2 m r j = Some (repeat (-1)%Z (length time_to_index)) ->
      forward_with S post c (InTime S m) = None.
  Proof.
    intros post half pm w b st ch cpost m r j c Hwf Hg.
    rewrite forward_with_cellwise by (auto; exact I).
    change (construct_ok S c) with true. cbv iota.
    eapply (cw_none_of_cell _ _ _ r j).
    - unfold cells. unfold get2 in *. rewrite nth_error_map.
      destruct (nth_error m r) as [row|]; [|discriminate]. simpl. rewrite nth_error_map, Hg. reflexivity.
    - change (cell_fn S c post j (CTime S (repeat (-1)%Z (length time_to_index))))
        with (option_map (fun o => post (map (nan_to_num S) o))
                (time_cell S (nth j st (dstats S)) ch half pm (nth j w []) (nth j b []) cyclic_norm_constants
                           (repeat (-1)%Z (length time_to_index)))).
      rewrite missing_time_cell_fails. reflexivity.
  Qed.

  Theorem timestamp_year_below_min_raises : forall post half pm w b st ch na cpost (m : mat (list Z)) r j y rest,
      let c := Build_config S (ETimestamp S half pm w b) st ch na cpost in
      wf_config S c ->
      get2 m r j = Some (y :: rest) ->
      existsb (fun z => (z =? -1)%Z) (y :: rest) = false ->
      (y < cs_year_min (nth j st (dstats S)))%Z ->
      forward_with S post c (InTime S m) = None.
  Proof.
    intros post half pm w b st ch na cpost m r j y rest c Hwf Hg Hnm Hy.
    rewrite forward_with_cellwise by (auto; exact I).
    destruct (construct_ok S c); [|reflexivity].
    eapply (cw_none_of_cell _ _ _ r j).
    - unfold cells. unfold get2 in *. rewrite nth_error_map.
      destruct (nth_error m r) as [row|]; [|discriminate]. simpl. rewrite nth_error_map, Hg. reflexivity.
    - unfold cell_fn. simpl cf_na. simpl cf_stats. simpl cf_enc.
      assert (Hc : na_cell S na (nth j st (dstats S)) (CTime S (y :: rest)) = CTime S (y :: rest)).
      { destruct na; [|reflexivity]. unfold na_cell. rewrite Hnm. reflexivity. }
      rewrite Hc. simpl.
      assert (Hz : (0 <=? y - cs_year_min (nth j st (dstats S)))%Z = false) by (apply Z.leb_gt; lia).
      rewrite Hz. reflexivity.
  Qed.

  (* --- strategy / stype rejection table (finite: case analysis on the generated enums) *)
  Theorem strategy_table :
    (forall s, strategy_ok st_numerical (Some s) = true <-> (s = na_MEAN \/ s = na_ZEROS)) /\
    (forall s, strategy_ok st_categorical (Some s) = true <-> s = na_MOST_FREQUENT) /\
    (forall s, strategy_ok st_multicategorical (Some s) = true <-> s = na_ZEROS) /\
    (forall s, strategy_ok st_timestamp (Some s) = true <->
               (s = na_OLDEST_TIMESTAMP \/ s = na_NEWEST_TIMESTAMP \/ s = na_MEDIAN_TIMESTAMP)) /\
    (forall s, strategy_ok st_embedding (Some s) = false) /\
    (forall st, strategy_ok st None = true).
  Proof.
    split; [|split; [|split; [|split; [|split]]]].
    - intros s; split; [destruct s; intros H; vm_compute in H; try discriminate; auto | intros [H | H]; subst; reflexivity].
    - intros s; split; [destruct s; intros H; vm_compute in H; try discriminate; auto | intros H; subst; reflexivity].
    - intros s; split; [destruct s; intros H; vm_compute in H; try discriminate; auto | intros H; subst; reflexivity].
    - intros s; split; [destruct s; intros H; vm_compute in H; try discriminate; auto
                       | intros [H | [H | H]]; subst; reflexivity].
    - intros s; destruct s; reflexivity.
    - intros st; reflexivity.
  Qed.
End Corollaries.

(* ===================================== C12: materialized data never raises *)
Lemma nth_error_combine : forall {A B} (d : B) (row : list A) (ps : list B) j z,
    nth_error row j = Some z -> j < length ps -> nth_error (combine row ps) j = Some (z, nth j ps d).
Proof.
  intros A B d. induction row as [|x row IH]; intros [|p ps] j z H Hl; destruct j; simpl in *; try discriminate; try lia.
  - inversion H; reflexivity.
  - apply IH; [assumption | lia].
Qed.

Lemma forallb_combine_get2 : forall {A B} (P : A -> B -> bool) (d : B) ps (feat : mat A) r j z,
    rect (length ps) feat = true ->
    forallb (fun row => forallb (fun p => P (fst p) (snd p)) (combine row ps)) feat = true ->
    get2 feat r j = Some z -> j < length ps /\ P z (nth j ps d) = true.
Proof.
  intros A B P d ps feat r j z R0 H Hg. unfold get2 in Hg.
  destruct (nth_error feat r) as [row|] eqn:Hr; [|discriminate].
  pose proof (nth_error_In _ _ Hr) as Hin.
  pose proof (proj1 (rect_forall _ feat) R0 row Hin) as Hl.
  assert (Hj : j < length ps) by (rewrite <- Hl; apply nth_error_Some; congruence).
  split; [assumption|].
  rewrite forallb_forall in H. specialize (H row Hin). rewrite forallb_forall in H.
  apply (H (z, nth j ps d)). eapply nth_error_In. apply nth_error_combine; eauto.
Qed.

Section NoRaise.
  Variable S : Scalar.
  Notation R := (car S).
  Notation XR := (X (car S)).
  Variable stats : list (colstats S).
  Notation C := (length stats).

  (* categorical: whatever CategoricalTensorMapper emits for the data the COUNT statistic was
     computed from is accepted by the embedding table EmbeddingEncoder builds from that statistic *)
  Theorem cat_domain_no_raise : forall (table : mat R) feat,
      cat_in_domain (ncats S stats) feat = true ->
      length table = emb_table_size S stats ->
      encode_embedding S stats table feat <> None.
  Proof.
    intros table feat Hd Ht. rewrite encode_embedding_form.
    unfold cat_in_domain in Hd. apply andb_true_iff in Hd. destruct Hd as [R0 Hd].
    assert (Hn : length (ncats S stats) = C) by (unfold ncats; apply map_length).
    apply cw_some; [rewrite <- Hn; assumption|].
    intros r j z Hg.
    destruct (forallb_combine_get2 (fun z n => (-1 <=? z)%Z && (z <? Z.of_nat n)%Z) 0 _ _ _ _ _ R0 Hd Hg) as [Hj Hp].
    apply andb_true_iff in Hp. destruct Hp as [H1 H2]. apply Z.leb_le in H1. apply Z.ltb_lt in H2.
    rewrite Hn in Hj.
    destruct (cat_index_in_table S stats j z Hj (conj H1 H2)) as [[Hlo Hhi] _].
    unfold embedding_lookup.
    destruct (emb_index z (nth j (emb_offset S stats) 0%nat) <? 0)%Z eqn:E; [apply Z.ltb_lt in E; lia|].
    destruct (nth_error table (Z.to_nat (emb_index z (nth j (emb_offset S stats) 0%nat)))) eqn:En; [discriminate|].
    apply nth_error_None in En. lia.
  Qed.

  Theorem bag_domain_no_raise : forall mode ch (tables : list (mat R)) feat,
      bag_in_domain (ncats S stats) feat = true ->
      length tables = C ->
      (forall j, j < C -> nth j (ncats S stats) 0 + 1 <= length (nth j tables [])) ->
      encode_bags S mode ch tables feat <> None.
  Proof.
    intros mode ch tables feat Hd Ht Hrows. rewrite (encode_bags_form S stats) by assumption.
    unfold bag_in_domain in Hd. apply andb_true_iff in Hd. destruct Hd as [R0 Hd].
    assert (Hn : length (ncats S stats) = C) by (unfold ncats; apply map_length).
    apply cw_some; [rewrite <- Hn; assumption|].
    intros r j cell Hg.
    destruct (forallb_combine_get2 (fun (cell : list Z) n => forallb (fun z => (-1 <=? z)%Z && (z <? Z.of_nat n)%Z) cell)
                                   0 _ _ _ _ _ R0 Hd Hg) as [Hj Hp].
    rewrite Hn in Hj. rewrite forallb_forall in Hp.
    unfold embedding_bag.
    destruct (mapM (embedding_lookup S (nth j tables []))
                   (filter (fun i => negb (i =? 0)%Z) (map (fun z => (z + 1)%Z) cell))) as [rows|] eqn:E.
    - simpl. destruct rows; [discriminate|]. destruct mode; discriminate.
    - exfalso. revert E. apply mapM_some_all. intros i Hi.
      apply filter_In in Hi. destruct Hi as [Hi _]. apply in_map_iff in Hi. destruct Hi as [z [<- Hz]].
      specialize (Hp z Hz). apply andb_true_iff in Hp. destruct Hp as [H1 H2].
      apply Z.leb_le in H1. apply Z.ltb_lt in H2.
      unfold embedding_lookup.
      destruct (z + 1 <? 0)%Z eqn:E0; [apply Z.ltb_lt in E0; lia|].
      destruct (nth_error (nth j tables []) (Z.to_nat (z + 1))) eqn:En; [discriminate|].
      apply nth_error_None in En. pose proof (Hrows j Hj). lia.
  Qed.

  Theorem time_domain_no_raise : forall ch half pm w b feat,
      time_in_domain (map cs_year_min stats) feat = true ->
      length w = C -> length b = C ->
      encode_timestamp S stats ch half pm w b cyclic_norm_constants feat <> None.
  Proof.
    intros ch half pm w b feat Hd Hw Hb. rewrite encode_timestamp_form by assumption.
    unfold time_in_domain in Hd. apply andb_true_iff in Hd. destruct Hd as [R0 Hd].
    rewrite map_length in R0.
    apply cw_some; [assumption|].
    intros r j cell Hg.
    assert (R1 : rect (length (map cs_year_min stats)) feat = true) by (rewrite map_length; assumption).
    destruct (forallb_combine_get2 (fun (cell : list Z) my => time_cell_in_domain my cell) 0%Z _ _ _ _ _ R1 Hd Hg)
      as [Hj Hp].
    change 0%Z with (cs_year_min (dstats S)) in Hp. rewrite (map_nth cs_year_min) in Hp.
    unfold time_cell_in_domain in Hp. destruct cell as [|y rest]; [discriminate|].
    apply andb_true_iff in Hp. destruct Hp as [Hp H3]. apply andb_true_iff in Hp. destruct Hp as [H1 H2].
    unfold time_cell.
    assert (Hy : (0 <=? y - cs_year_min (nth j stats (dstats S)))%Z = true)
      by (apply Z.leb_le in H1; apply Z.leb_le; lia).
    rewrite Hy, H2, H3. discriminate.
  Qed.
End NoRaise.

(* what the mapper emits for any parsed instant lies in the encoder's domain (Lib/Calendar.v ranges
   against the generated constants), provided the year is not below the fitted minimum *)
Theorem calendar_cell_in_domain : forall s min_year,
    (min_year <= year_of_days (days_of_secs s))%Z -> time_cell_in_domain min_year (calendar_cell s) = true.
Proof.
  intros s min_year Hy. unfold time_cell_in_domain, calendar_cell.
  pose proof (month_range (days_of_secs s)) as Hm. pose proof (day_range (days_of_secs s)) as Hd.
  pose proof (weekday_range (days_of_secs s)) as Hw. pose proof (time_of_day_range s) as [Hh [Hmi Hs]].
  apply andb_true_iff. split; [apply andb_true_iff; split; [apply Z.leb_le; assumption | reflexivity]|].
  unfold cyclic_norm_constants. simpl combine. simpl forallb.
  repeat (apply andb_true_iff; split); try reflexivity;
    try (apply Z.leb_le; lia); try (apply Z.ltb_lt; lia).
Qed.

(* ===================================================================== END TO END
   The mapper-side half of the C12 domain contract, discharged from the C01 mapper model
   (Proofs/MapperProofs.v) and the C03 statistics model (Proofs/StatsProofs.v). *)
Require PF.Model.Mapper PF.Model.MapperSpec PF.Model.Stats PF.Proofs.MapperProofs PF.Proofs.StatsProofs.

Lemma nth_error_seq' : forall n a r x, nth_error (seq a n) r = Some x -> x = a + r.
Proof.
  induction n as [|n IH]; intros a r x H; destruct r; simpl in H; try discriminate.
  - inversion H; lia.
  - apply IH in H. lia.
Qed.

Lemma stack1_spec : forall {A} n (cols : list (list A)) m,
    stack1 n cols = Some m ->
    length m = n /\ rect (length cols) m = true /\
    forall r j z, get2 m r j = Some z -> exists col, nth_error cols j = Some col /\ nth_error col r = Some z.
Proof.
  intros A n cols m H. unfold stack1 in H. split; [|split].
  - rewrite (mapM_len _ _ _ H). apply seq_length.
  - apply rect_forall. intros row Hin. apply In_nth_error in Hin. destruct Hin as [r Hr].
    destruct (mapM_nth_inv _ _ _ _ _ H Hr) as [x [_ Hx]]. apply (mapM_len _ _ _ Hx).
  - intros r j z Hg. unfold get2 in Hg. destruct (nth_error m r) as [row|] eqn:Hr; [|discriminate].
    destruct (mapM_nth_inv _ _ _ _ _ H Hr) as [x [Hs Hx]]. apply nth_error_seq' in Hs. simpl in Hs. subst x.
    destruct (mapM_nth_inv _ _ _ _ _ Hx Hg) as [col [Hc Hz]]. eauto.
Qed.

Lemma forallb_combine_of_get2 : forall {A B} (P : A -> B -> bool) (d : B) ps (feat : mat A),
    rect (length ps) feat = true ->
    (forall r j z, get2 feat r j = Some z -> j < length ps -> P z (nth j ps d) = true) ->
    forallb (fun row => forallb (fun p => P (fst p) (snd p)) (combine row ps)) feat = true.
Proof.
  intros A B P d ps feat R0 H. apply forallb_forall. intros row Hin.
  pose proof (proj1 (rect_forall _ feat) R0 row Hin) as Hl.
  apply In_nth_error in Hin. destruct Hin as [r Hr].
  apply forallb_forall. intros [z b] Hp. simpl.
  apply In_nth_error in Hp. destruct Hp as [j Hj].
  assert (Hlt : j < length (combine row ps)) by (apply nth_error_Some; congruence).
  rewrite combine_length in Hlt.
  destruct (nth_error row j) as [z'|] eqn:Hz; [|apply nth_error_None in Hz; lia].
  rewrite (nth_error_combine d row ps j z' Hz) in Hj by lia. inversion Hj; subst.
  apply (H r j z); [unfold get2; rewrite Hr; assumption | lia].
Qed.

Lemma get2_map_rowmap : forall {A B} c (g : nat -> A -> B) (m : mat A) r j,
    rect c m = true -> get2 (map (rowmap c g) m) r j = option_map (g j) (get2 m r j).
Proof.
  intros A B c g m r j R0. unfold get2. rewrite nth_error_map.
  destruct (nth_error m r) as [row|] eqn:Hr; simpl; [|reflexivity].
  pose proof (proj1 (rect_forall _ m) R0 row (nth_error_In _ _ Hr)) as Hl.
  unfold rowmap. rewrite nth_error_map.
  destruct (nth_error row j) as [x|] eqn:Hx.
  - rewrite (nth_error_combine_seq row c j x Hl Hx). reflexivity.
  - destruct (nth_error (combine (seq 0 c) row) j) eqn:Hc; [|reflexivity].
    assert (Hlt : j < length (combine (seq 0 c) row)) by (apply nth_error_Some; congruence).
    rewrite combine_length in Hlt. apply nth_error_None in Hx. lia.
Qed.

(* C03: value_counts lists every distinct value once *)
Lemma counted_nodup : forall cats, counted_categories cats -> NoDup cats.
Proof.
  intros cats [code [o [col [Hinj [Hmap Hv]]]]].
  apply StatsProofs.valid_count_order_sound in Hv. destruct Hv as [[Hnd _] _].
  rewrite <- Hmap in Hnd. clear Hmap.
  induction cats as [|a cats IH]; [constructor|].
  simpl in Hnd. inversion Hnd as [|x l Hnin Hnd']; subst. constructor.
  - intro Hin. apply Hnin. apply in_map. assumption.
  - apply IH; [|assumption]. intros x y Hx Hy. apply Hinj; right; assumption.
Qed.

Section EndToEnd.
  Variable S : Scalar.
  Notation R := (car S).
  Context {L : Type}.

  (* ---------------------------------------------------------- categorical *)
  Notation cat_col_stats := (@Encoders.cat_col_stats S L).

  Lemma cat_cell_range : forall cols n feat r j z,
      Forall (fun p => counted_categories (fst p)) cols ->
      frame_of_columns n (cat_columns cols) = Some feat -> get2 feat r j = Some z ->
      (-1 <= z < Z.of_nat (nth j (ncats S (cat_col_stats cols)) 0%nat))%Z.
  Proof.
    intros cols n feat r j z HC HF Hg.
    destruct (stack1_spec _ _ _ HF) as [_ [_ Hcell]]. destruct (Hcell r j z Hg) as [col [Hc Hz]].
    unfold cat_columns in Hc. rewrite nth_error_map in Hc.
    destruct (nth_error cols j) as [[cats s]|] eqn:Hp; [|discriminate]. simpl in Hc. inversion Hc; subst col. clear Hc.
    rewrite Forall_forall in HC. pose proof (HC _ (nth_error_In _ _ Hp)) as Hcnt. simpl in Hcnt.
    rewrite (MapperProofs.categorical_faithful cats s (counted_nodup _ Hcnt)) in Hz.
    rewrite map_map, nth_error_map in Hz.
    destruct (nth_error (Mapper.ser_values s) r) as [c|]; [|discriminate]. simpl in Hz. inversion Hz; subst z. clear Hz.
    assert (Hn : nth j (ncats S (cat_col_stats cols)) 0%nat = length cats).
    { unfold ncats, cat_col_stats. rewrite map_map. simpl.
      erewrite nth_indep by (rewrite map_length; apply nth_error_Some; congruence).
      rewrite (map_nth (fun p : list Mapper.pval * @Mapper.series L (option Mapper.pval) => length (fst p)) cols (cats, s)).
      rewrite (nth_error_nth _ _ _ Hp). reflexivity. }
    rewrite Hn. unfold ecell_int, MapperSpec.canon_cat. simpl.
    destruct c as [v|]; [apply MapperProofs.index_of_range | lia].
  Qed.

  Lemma idx_fill_categorical : forall s (cs : colstats S),
      na_is_categorical_strategy s = true -> idx_fill S s cs = 0%Z.
  Proof. intros s cs H. destruct s; simpl in H; try discriminate; reflexivity. Qed.

  (* For every categorical feature matrix the C01 mapper model produces from category lists
     that are C03 count statistics, the EmbeddingEncoder built from those statistics does not
     raise -- without a strategy, and with MOST_FREQUENT provided every column has a category
     (i.e. at least one non-missing value, the quantifier's premise). *)
  Theorem categorical_end_to_end : forall cols n na feat (table : mat R),
      Forall (fun p => counted_categories (fst p)) cols ->
      (na <> None -> Forall (fun p => fst p <> []) cols) ->
      strategy_ok st_categorical na = true ->
      frame_of_columns n (cat_columns cols) = Some feat ->
      length table = emb_table_size S (cat_col_stats cols) ->
      obind (na_forward_idx S na (cat_col_stats cols) feat) (encode_embedding S (cat_col_stats cols) table) <> None.
  Proof.
    intros cols n na feat table HC Hne Hok HF Ht.
    set (stats := cat_col_stats cols) in *.
    assert (Hls : length stats = length cols) by (unfold stats, cat_col_stats; apply map_length).
    assert (Hln : length (ncats S stats) = length cols) by (unfold ncats; rewrite map_length; assumption).
    destruct (stack1_spec _ _ _ HF) as [_ [R0 _]].
    unfold cat_columns in R0. rewrite map_length in R0.
    assert (Hin : forall feat', rect (length cols) feat' = true ->
                    (forall r j z, get2 feat' r j = Some z ->
                                   (-1 <= z < Z.of_nat (nth j (ncats S stats) 0%nat))%Z) ->
                    encode_embedding S stats table feat' <> None).
    { intros feat' R1 Hcell. apply cat_domain_no_raise; [|assumption].
      unfold cat_in_domain. rewrite Hln, R1. simpl.
      apply (forallb_combine_of_get2 (fun z n0 => (-1 <=? z)%Z && (z <? Z.of_nat n0)%Z) 0%nat); [rewrite Hln; assumption|].
      intros r j z Hg _. specialize (Hcell r j z Hg). apply andb_true_iff. split; [apply Z.leb_le | apply Z.ltb_lt]; lia. }
    rewrite na_forward_idx_form
      by (intros s -> cs; apply as_idx_fill_cat; apply strategy_ok_cat; assumption).
    destruct na as [s|]; simpl.
    - rewrite Hls, R0. simpl. apply Hin.
      + apply rect_map; [intros; apply rowmap_length; assumption | assumption].
      + intros r j z Hg. rewrite get2_map_rowmap in Hg by assumption.
        destruct (get2 feat r j) as [z0|] eqn:Hz; [|discriminate]. simpl in Hg. inversion Hg; subst z. clear Hg.
        pose proof (cat_cell_range cols n feat r j z0 HC HF Hz) as Hr. fold stats in Hr.
        rewrite (idx_fill_categorical s _ (strategy_ok_cat s Hok)).
        destruct (z0 =? -1)%Z eqn:E; [|assumption].
        (* the imputed index 0 is a category: the column has one *)
        assert (Hj : j < length cols).
        { unfold get2 in Hz. destruct (nth_error feat r) as [row|] eqn:Hrow; [|discriminate].
          rewrite <- (proj1 (rect_forall _ feat) R0 row (nth_error_In _ _ Hrow)). apply nth_error_Some. congruence. }
        destruct (nth_error cols j) as [[cats sr]|] eqn:Hp; [|apply nth_error_None in Hp; lia].
        assert (Hn : nth j (ncats S stats) 0%nat = length cats).
        { unfold ncats, stats, cat_col_stats. rewrite map_map. simpl.
          erewrite nth_indep by (rewrite map_length; assumption).
          rewrite (map_nth (fun p : list Mapper.pval * @Mapper.series L (option Mapper.pval) => length (fst p)) cols (cats, sr)).
          rewrite (nth_error_nth _ _ _ Hp). reflexivity. }
        rewrite Hn.
        assert (Hc : cats <> []).
        { specialize (Hne ltac:(discriminate)). rewrite Forall_forall in Hne.
          apply (Hne _ (nth_error_In _ _ Hp)). }
        destruct cats; [contradiction|]. simpl. lia.
    - apply Hin; [assumption|]. intros r j z Hg. apply (cat_cell_range cols n feat r j z HC HF Hg).
  Qed.
End EndToEnd.

Lemma Forall2_nth_error_l : forall {A B} (P : A -> B -> Prop) l l' i a,
    Forall2 P l l' -> nth_error l i = Some a -> exists b, nth_error l' i = Some b /\ P a b.
Proof.
  intros A B P l l' i a H. revert i. induction H as [|x y l l' Hxy H IH]; intros i Hi; destruct i; simpl in *; try discriminate.
  - inversion Hi; subst. eauto.
  - apply IH. assumption.
Qed.

Lemma Forall2_nth_error_r : forall {A B} (P : A -> B -> Prop) l l' i b,
    Forall2 P l l' -> nth_error l' i = Some b -> exists a, nth_error l i = Some a /\ P a b.
Proof.
  intros A B P l l' i b H. revert i. induction H as [|x y l l' Hxy H IH]; intros i Hi; destruct i; simpl in *; try discriminate.
  - inversion Hi; subst. eauto.
  - apply IH. assumption.
Qed.

Lemma in_ecell_ints : forall e z, In z (ecell_ints e) -> In (Mapper.SInt z) e.
Proof.
  intros e z H. unfold ecell_ints in H. apply in_flat_map in H. destruct H as [s [Hs Hz]].
  destruct s; simpl in Hz; [|contradiction]. destruct Hz as [<- | []]. assumption.
Qed.

Section EndToEndBags.
  Variable S : Scalar.
  Notation R := (car S).
  Context {L : Type}.
  Notation mcol := (list Mapper.pval * option Mapper.str * @Mapper.series L Mapper.mc_cell)%type.

  Notation mc_stats := (@Encoders.mc_stats S L).

  (* every index the mapper emits in a multicategorical cell is -1 or a listed category *)
  Lemma bag_cell_range : forall (p : mcol) enc r e z,
      mc_ok p ->
      Mapper.multicategorical_encode true (fst (fst p)) (snd (fst p)) (snd p) = Some enc ->
      nth_error enc r = Some e -> In z (ecell_ints e) ->
      (-1 <= z < Z.of_nat (length (fst (fst p))))%Z.
  Proof.
    intros [[cats sep] s] enc r e z [Hcnt [Hm1 Htok]] He Hr Hz. simpl in *.
    destruct (mapM (MapperSpec.canon_multi cats sep) (Mapper.ser_values s)) as [canon|] eqn:Hc.
    2:{ rewrite (MapperProofs.multicategorical_raises true cats sep s Hc) in He. discriminate. }
    destruct (MapperProofs.multicategorical_faithful cats sep s canon (counted_nodup _ Hcnt) Hm1 Htok Hc)
      as [enc' [He' HP]].
    rewrite He in He'. inversion He'; subst enc'. clear He'.
    destruct (Forall2_nth_error_l _ _ _ _ _ HP Hr) as [c' [Hc' Hperm]].
    destruct (mapM_nth_inv _ _ _ _ _ Hc Hc') as [cell [_ Hcm]].
    apply in_ecell_ints in Hz. apply (Permutation.Permutation_in _ Hperm) in Hz.
    unfold MapperSpec.canon_multi in Hcm.
    destruct cell.
    - inversion Hcm; subst c'. destruct Hz as [Hz | []]. inversion Hz. lia.
    - destruct (MapperSpec.tokens_of sep (Mapper.MCStr s0)) as [toks|]; simpl in Hcm; [|discriminate].
      inversion Hcm; subst c'. apply in_map_iff in Hz. destruct Hz as [k [Hk Hin]]. inversion Hk; subst z.
      unfold MapperSpec.canon_idx in Hin. apply filter_In in Hin. destruct Hin as [Hin _]. apply in_seq in Hin. lia.
    - destruct (MapperSpec.tokens_of sep (Mapper.MCList l)) as [toks|]; simpl in Hcm; [|discriminate].
      inversion Hcm; subst c'. apply in_map_iff in Hz. destruct Hz as [k [Hk Hin]]. inversion Hk; subst z.
      unfold MapperSpec.canon_idx in Hin. apply filter_In in Hin. destruct Hin as [Hin _]. apply in_seq in Hin. lia.
    - destruct (MapperSpec.tokens_of sep Mapper.MCOther) as [toks|]; simpl in Hcm; [|discriminate].
      inversion Hcm; subst c'. apply in_map_iff in Hz. destruct Hz as [k [Hk Hin]]. inversion Hk; subst z.
      unfold MapperSpec.canon_idx in Hin. apply filter_In in Hin. destruct Hin as [Hin _]. apply in_seq in Hin. lia.
  Qed.

  (* bags never raise when every shifted index addresses a row of its column's table *)
  Lemma bags_no_raise_gen : forall mode ch (tables : list (mat R)) (feat : mat (list Z)),
      rect (length tables) feat = true ->
      (forall r j cell z, get2 feat r j = Some cell -> In z cell ->
                          (0 <= z + 1 < Z.of_nat (length (nth j tables [])))%Z) ->
      encode_bags S mode ch tables feat <> None.
  Proof.
    intros mode ch tables feat R0 H.
    rewrite (encode_bags_form S (map (fun _ => dstats S) tables)) by (rewrite map_length; reflexivity).
    rewrite map_length. apply cw_some; [assumption|].
    intros r j cell Hg. unfold embedding_bag.
    destruct (mapM (embedding_lookup S (nth j tables []))
                   (filter (fun i => negb (i =? 0)%Z) (map (fun z => (z + 1)%Z) cell))) as [rows|] eqn:E.
    - simpl. destruct rows; [discriminate|]. destruct mode; discriminate.
    - exfalso. revert E. apply mapM_some_all. intros i Hi.
      apply filter_In in Hi. destruct Hi as [Hi _]. apply in_map_iff in Hi. destruct Hi as [z [<- Hz]].
      specialize (H r j cell z Hg Hz). unfold embedding_lookup.
      destruct (z + 1 <? 0)%Z eqn:E0; [apply Z.ltb_lt in E0; lia|].
      destruct (nth_error (nth j tables []) (Z.to_nat (z + 1))) eqn:En; [discriminate|].
      apply nth_error_None in En. lia.
  Qed.

  Lemma idx_fill_multicategorical : forall s (cs : colstats S),
      na_is_multicategorical_strategy s = true -> idx_fill S s cs = 0%Z.
  Proof. intros s cs H. destruct s; simpl in H; try discriminate; reflexivity. Qed.

  (* For every multicategorical feature matrix the C01 mapper model produces (from category
     lists that are C03 count statistics), MultiCategoricalEmbeddingEncoder with the tables
     init_modules allocates does not raise -- without a strategy and with ZEROS, whatever the
     number of categories. *)
  Theorem multicategorical_end_to_end : forall (cols : list mcol) encs n na feat mode ch (tables : list (mat R)),
      Forall2 (fun p enc => Mapper.multicategorical_encode true (fst (fst p)) (snd (fst p)) (snd p) = Some enc) cols encs ->
      Forall mc_ok cols ->
      strategy_ok st_multicategorical na = true ->
      frame_of_columns n (map (map ecell_ints) encs) = Some feat ->
      length tables = length cols ->
      (forall j, j < length cols -> bag_table_rows (nth j (ncats S (mc_stats cols)) 0) <= length (nth j tables [])) ->
      obind (na_forward_bag S na (mc_stats cols) feat) (encode_bags S mode ch tables) <> None.
  Proof.
    intros cols encs n na feat mode ch tables HE HC Hok HF Ht Hrows.
    set (stats := mc_stats cols) in *.
    assert (Hls : length stats = length cols) by (unfold stats, mc_stats; apply map_length).
    assert (Hle : length encs = length cols).
    { clear - HE. induction HE; simpl; [reflexivity | congruence]. }
    destruct (stack1_spec _ _ _ HF) as [_ [R0 Hcell]]. rewrite map_length, Hle in R0.
    (* range of every emitted index *)
    assert (Hrange : forall r j cell z, get2 feat r j = Some cell -> In z cell ->
                       j < length cols /\ (-1 <= z < Z.of_nat (nth j (ncats S stats) 0%nat))%Z).
    { intros r j cell z Hg Hz. destruct (Hcell r j cell Hg) as [col [Hc Hr]].
      rewrite nth_error_map in Hc. destruct (nth_error encs j) as [enc|] eqn:Henc; [|discriminate].
      simpl in Hc. inversion Hc; subst col. clear Hc.
      rewrite nth_error_map in Hr. destruct (nth_error enc r) as [e|] eqn:Her; [|discriminate].
      simpl in Hr. inversion Hr; subst cell. clear Hr.
      destruct (Forall2_nth_error_r _ _ _ _ _ HE Henc) as [p [Hp Hpe]].
      assert (Hj : j < length cols) by (apply nth_error_Some; congruence).
      split; [assumption|].
      rewrite Forall_forall in HC. pose proof (HC p (nth_error_In _ _ Hp)) as Hmc.
      assert (Hn : nth j (ncats S stats) 0%nat = length (fst (fst p))).
      { unfold ncats, stats, mc_stats. rewrite map_map. simpl.
        erewrite nth_indep by (rewrite map_length; assumption).
        rewrite (map_nth (fun q : mcol => length (fst (fst q))) cols p).
        rewrite (nth_error_nth _ _ _ Hp). reflexivity. }
      rewrite Hn. eapply bag_cell_range; eauto. }
    assert (Hfin : forall feat', rect (length cols) feat' = true ->
              (forall r j cell z, get2 feat' r j = Some cell -> In z cell ->
                 j < length cols /\ ((-1 <= z < Z.of_nat (nth j (ncats S stats) 0%nat))%Z \/ z = 0%Z)) ->
              encode_bags S mode ch tables feat' <> None).
    { intros feat' R1 H. apply bags_no_raise_gen; [rewrite Ht; assumption|].
      intros r j cell z Hg Hz. destruct (H r j cell z Hg Hz) as [Hj Hr].
      pose proof (bag_fill_in_table _ z Hr). specialize (Hrows j Hj). lia. }
    rewrite na_forward_bag_form
      by (intros s -> cs; apply as_idx_fill_multicat; apply strategy_ok_multicat; assumption).
    destruct na as [s|]; simpl.
    - rewrite Hls, R0. simpl. apply Hfin.
      + apply rect_map; [intros; apply rowmap_length; assumption | assumption].
      + intros r j cell z Hg Hz. rewrite get2_map_rowmap in Hg by assumption.
        destruct (get2 feat r j) as [c0|] eqn:Hc0; [|discriminate]. simpl in Hg. inversion Hg; subst cell. clear Hg.
        apply in_map_iff in Hz. destruct Hz as [z0 [Hz0 Hin]].
        destruct (Hrange r j c0 z0 Hc0 Hin) as [Hj Hr]. split; [assumption|].
        rewrite (idx_fill_multicategorical s _ (strategy_ok_multicat s Hok)) in Hz0.
        destruct (z0 =? -1)%Z; [right; congruence | left; congruence].
    - apply Hfin; [assumption|]. intros r j cell z Hg Hz.
      destruct (Hrange r j cell z Hg Hz) as [Hj Hr]. auto.
  Qed.
End EndToEndBags.

Section EndToEndTime.
  Variable S : Scalar.
  Notation R := (car S).
  Context {L : Type}.
  Notation tcol := (@Mapper.series L (option Z)).

  Lemma time_cell_some : forall (cs : colstats S) ch half pm wj bj cell,
      time_cell_in_domain (cs_year_min cs) cell = true ->
      time_cell S cs ch half pm wj bj cyclic_norm_constants cell <> None.
  Proof.
    intros cs ch half pm wj bj cell H. unfold time_cell_in_domain in H. destruct cell as [|y rest]; [discriminate|].
    apply andb_true_iff in H. destruct H as [H H3]. apply andb_true_iff in H. destruct H as [H1 H2].
    unfold time_cell.
    assert (Hy : (0 <=? y - cs_year_min cs)%Z = true) by (apply Z.leb_le in H1; apply Z.leb_le; lia).
    rewrite Hy, H2, H3. discriminate.
  Qed.

  Lemma in_present_time_cells : forall vals c,
      In c (Stats.present (time_stat_cells vals)) -> exists s, In (Some s) vals /\ c = (s, calendar_cell s).
  Proof.
    induction vals as [|v vals IH]; intros c H; simpl in H; [contradiction|].
    unfold Stats.present in *. simpl in H. apply in_app_or in H. destruct H as [H | H].
    - destruct v as [s|]; simpl in H; [|contradiction]. destruct H as [<- | []]. exists s. split; [left; reflexivity | reflexivity].
    - destruct (IH c H) as [s [Hs Hc]]. exists s. split; [right; assumption | assumption].
  Qed.

  Lemma present_time_cells_in : forall vals s,
      In (Some s) vals -> In (s, calendar_cell s) (Stats.present (time_stat_cells vals)).
  Proof.
    induction vals as [|v vals IH]; intros s H; simpl in H; [contradiction|].
    unfold Stats.present in *. simpl. apply in_or_app. destruct H as [-> | H].
    - left. simpl. left. reflexivity.
    - right. apply IH. assumption.
  Qed.

  Lemma last_error_In : forall {A} (l : list A) x, last_error l = Some x -> In x l.
  Proof.
    intros A l x H. destruct l as [|a l]; simpl in H; [discriminate|]. inversion H; subst. clear H.
    destruct l as [|b l]; [left; reflexivity|]. right.
    rewrite (app_removelast_last a (l := b :: l)) at 2 by discriminate. apply in_or_app. right. left. reflexivity.
  Qed.

  (* the fitted statistics of a column: minimal year below every instant of the column, and the
     three candidate fill values are cells of the column *)
  Lemma fitted_time_stats : forall vals t,
      Stats.present (time_stat_cells vals) <> [] -> Stats.compute_time (time_stat_cells vals) = Some t ->
      (forall s, In (Some s) vals -> (hd 0%Z (Stats.t_year_range t) <= year_of_days (days_of_secs s))%Z) /\
      (forall f, f = Stats.t_oldest t \/ f = Stats.t_newest t \/ f = Stats.t_median t ->
                 exists s, In (Some s) vals /\ f = calendar_cell s).
  Proof.
    intros vals t Hne Hc.
    destruct (StatsProofs.compute_time_spec _ _ Hne Hc)
      as [ser [Hperm [_ [[c0 [H0 [Ho _]]] [[c1 [H1 [Hn _]]] [[cm [Hm Hmd]] [lo [hi [Hyr [Hall _]]]]]]]]]].
    split.
    - intros s Hs. rewrite Hyr. simpl.
      destruct (Hall (s, calendar_cell s) (year_of_days (days_of_secs s)) (present_time_cells_in vals s Hs) eq_refl). assumption.
    - assert (Hin : forall c, In c ser -> exists s, In (Some s) vals /\ snd c = calendar_cell s).
      { intros c Hc'. apply (Permutation.Permutation_in _ Hperm) in Hc'.
        destruct (in_present_time_cells vals c Hc') as [s [Hs ->]]. eauto. }
      intros f [-> | [-> | ->]].
      + rewrite Ho. apply Hin. destruct ser; simpl in H0; [discriminate|]. inversion H0; subst. left; reflexivity.
      + rewrite Hn. apply Hin. apply last_error_In. assumption.
      + rewrite Hmd. apply Hin. eapply nth_error_In; eauto.
  Qed.

  Lemma time_fill_is_stat : forall s t,
      na_is_timestamp_strategy s = true ->
      time_fill S s (time_colstats S t) = Stats.t_oldest t \/ time_fill S s (time_colstats S t) = Stats.t_newest t \/
      time_fill S s (time_colstats S t) = Stats.t_median t.
  Proof. intros s t H. destruct s; simpl in H; try discriminate; simpl; auto. Qed.

  (* For every timestamp feature matrix the C01 mapper model produces, with the statistics the
     C03 model computes from the same columns (each with at least one parsed instant),
     TimestampEncoder does not raise -- with any timestamp strategy (the imputed OLDEST / NEWEST /
     MEDIAN cell is itself a cell of the column), and without a strategy when no cell is missing. *)
  Theorem timestamp_end_to_end : forall (cols : list tcol) ts n na feat ch half pm w b,
      Forall2 (fun s t => Stats.present (time_stat_cells (Mapper.ser_values s)) <> [] /\
                          Stats.compute_time (time_stat_cells (Mapper.ser_values s)) = Some t) cols ts ->
      strategy_ok st_timestamp na = true ->
      (na = None -> Forall (fun s => Forall (fun c => c <> None) (Mapper.ser_values s)) cols) ->
      frame_of_columns n (map (fun s => map ecell_ints (Mapper.timestamp_encode s)) cols) = Some feat ->
      length w = length cols -> length b = length cols ->
      obind (na_forward_time S na (map (time_colstats S) ts) feat)
            (encode_timestamp S (map (time_colstats S) ts) ch half pm w b cyclic_norm_constants) <> None.
  Proof.
    intros cols ts n na feat ch half pm w b HT Hok Hnone HF Hw Hb.
    set (stats := map (time_colstats S) ts) in *.
    assert (Hlt : length ts = length cols) by (clear - HT; induction HT; simpl; [reflexivity | congruence]).
    assert (Hls : length stats = length cols) by (unfold stats; rewrite map_length; assumption).
    destruct (stack1_spec _ _ _ HF) as [_ [R0 Hcell]]. rewrite map_length in R0.
    (* what a cell of the matrix is *)
    assert (Hsrc : forall r j cell, get2 feat r j = Some cell ->
              exists s t, nth_error cols j = Some s /\ nth_error ts j = Some t /\
                          Stats.present (time_stat_cells (Mapper.ser_values s)) <> [] /\
                          Stats.compute_time (time_stat_cells (Mapper.ser_values s)) = Some t /\
                          exists c, In c (Mapper.ser_values s) /\ cell = ecell_ints (MapperSpec.canon_time c)).
    { intros r j cell Hg. destruct (Hcell r j cell Hg) as [col [Hc Hr]].
      rewrite nth_error_map in Hc. destruct (nth_error cols j) as [s|] eqn:Hs; [|discriminate].
      simpl in Hc. inversion Hc; subst col. clear Hc.
      destruct (Forall2_nth_error_l _ _ _ _ _ HT Hs) as [t [Ht [Hp Hct]]].
      exists s, t. repeat split; auto.
      rewrite MapperProofs.timestamp_faithful, map_map, nth_error_map in Hr.
      destruct (nth_error (Mapper.ser_values s) r) as [c|] eqn:Hcr; [|discriminate].
      simpl in Hr. inversion Hr. exists c. split; [eapply nth_error_In; eauto | reflexivity]. }
    assert (Hstat : forall j t, nth_error ts j = Some t -> nth j stats (dstats S) = time_colstats S t).
    { intros j t Ht. unfold stats. apply nth_error_nth. rewrite nth_error_map, Ht. reflexivity. }
    (* every cell, after na_forward, is in the encoder's domain *)
    assert (Hdom : forall r j cell, get2 feat r j = Some cell ->
              time_cell_in_domain (cs_year_min (nth j stats (dstats S)))
                                  (match na_cell S na (nth j stats (dstats S)) (CTime S cell) with
                                   | CTime _ l => l | _ => [] end) = true).
    { intros r j cell Hg. destruct (Hsrc r j cell Hg) as [s [t [Hs [Ht [Hp [Hct [c [Hc ->]]]]]]]].
      rewrite (Hstat j t Ht).
      destruct (fitted_time_stats _ t Hp Hct) as [Hyear Hfill].
      assert (Hreal : forall x, In (Some x) (Mapper.ser_values s) ->
                time_cell_in_domain (cs_year_min (time_colstats S t)) (calendar_cell x) = true).
      { intros x Hx. apply calendar_cell_in_domain. simpl. apply Hyear. assumption. }
      assert (Hfilled : forall st, na_is_timestamp_strategy st = true ->
                time_cell_in_domain (cs_year_min (time_colstats S t)) (time_fill S st (time_colstats S t)) = true).
      { intros st Hst. destruct (Hfill _ (time_fill_is_stat st t Hst)) as [x [Hx ->]]. apply Hreal. assumption. }
      destruct na as [st|]; simpl.
      - pose proof (Hfilled st (strategy_ok_time st Hok)) as Hf.
        destruct (existsb _ _) eqn:Ex; [assumption|].
        destruct c as [x|]; [apply Hreal; assumption|].
        (* a missing cell holds -1, so the test above fires *)
        simpl in Ex. discriminate.
      - destruct c as [x|]; [apply Hreal; assumption|].
        exfalso. specialize (Hnone eq_refl). rewrite Forall_forall in Hnone.
        pose proof (Hnone s (nth_error_In _ _ Hs)) as Hn. rewrite Forall_forall in Hn. apply (Hn None Hc). reflexivity. }
    rewrite na_forward_time_form by assumption.
    rewrite (na_pipeline (length stats) _ (encode_timestamp S stats ch half pm w b cyclic_norm_constants) na
               (fun s j cell => if existsb (fun z => (z =? -1)%Z) cell
                                then time_fill S s (nth j stats (dstats S)) else cell))
      by (intros; apply encode_timestamp_form; congruence).
    rewrite Hls. apply cw_some; [assumption|].
    intros r j cell Hg. specialize (Hdom r j cell Hg).
    destruct na as [st|]; simpl in *; apply time_cell_some; assumption.
  Qed.
End EndToEndTime.

(* ===================================================================== SHAPE
   forward returns a tensor of shape [batch, columns, out_channels], for every batch size
   (the empty batch included). *)
Section Shape.
  Variable S : Scalar.
  Notation R := (car S).
  Notation XR := (X (car S)).

  Lemma vecmat_length : forall ch vec (w : mat R), length (vecmat S ch vec w) = ch.
  Proof. intros. unfold vecmat. rewrite map_length, seq_length. reflexivity. Qed.

  Lemma contract_kl_length : forall ch x (w : list (mat R)), length (contract_kl S ch x w) = ch.
  Proof. intros. unfold contract_kl. rewrite map_length, seq_length. reflexivity. Qed.

  Lemma nth_wide : forall ch (w : mat R) j, Forall (fun r => length r = ch) w -> j < length w -> length (nth j w []) = ch.
  Proof. intros ch w j H Hj. rewrite Forall_forall in H. apply H. apply nth_In. assumption. Qed.

  Lemma lookup_length : forall ch (t : mat R) i row,
      Forall (fun r => length r = ch) t -> embedding_lookup S t i = Some row -> length row = ch.
  Proof.
    intros ch t i row H E. unfold embedding_lookup in E. destruct (i <? 0)%Z; [discriminate|].
    destruct (nth_error t (Z.to_nat i)) as [r|] eqn:En; [|discriminate]. simpl in E. inversion E; subst.
    unfold fins. rewrite map_length. rewrite Forall_forall in H. apply H. eapply nth_error_In; eauto.
  Qed.

  Lemma fold_zip_length : forall ch (g : XR -> XR -> XR) rest r0,
      length r0 = ch -> Forall (fun r => length r = ch) rest ->
      length (fold_left (zipWith g) rest r0) = ch.
  Proof.
    intros ch g. induction rest as [|r rest IH]; intros r0 H0 HF; simpl; [assumption|].
    inversion HF; subst. apply IH; [|assumption]. rewrite zipWith_length. lia.
  Qed.

  Lemma bag_length : forall mode ch (t : mat R) bag row,
      Forall (fun r => length r = ch) t -> embedding_bag S mode ch t bag = Some row -> length row = ch.
  Proof.
    intros mode ch t bag row H E. unfold embedding_bag in E.
    destruct (mapM (embedding_lookup S t) (filter (fun i => negb (i =? 0)%Z) bag)) as [rows|] eqn:M; [|discriminate].
    simpl in E.
    assert (HF : Forall (fun r => length r = ch) rows).
    { apply Forall_forall. intros r Hin. apply In_nth_error in Hin. destruct Hin as [k Hk].
      destruct (mapM_nth_inv _ _ _ _ _ M Hk) as [i [_ Hi]]. eapply lookup_length; eauto. }
    destruct rows as [|r0 rest].
    - inversion E; subst. apply repeat_length.
    - inversion HF; subst.
      destruct mode; inversion E; subst; unfold vadd, vmax; rewrite ?map_length; apply fold_zip_length; auto.
  Qed.

  Lemma enc_cell_length : forall (c : config S) j v o,
      wf_config S c -> channels_ok S c -> j < ncols S c ->
      enc_cell S (cf_enc S c) (cf_stats S c) (cf_channels S c) j v = Some o -> length o = cf_channels S c.
  Proof.
    intros [e st ch na cpost] j v o Hwf Hch Hj E. unfold wf_config, channels_ok, ncols in *. simpl in *.
    destruct e; destruct v; simpl in E; try discriminate.
    - destruct Hwf as [Hw Hb]. destruct Hch as [Cw Cb]. inversion E; subst.
      rewrite zipWith_length, map_length. unfold fins. rewrite map_length.
      rewrite (nth_wide ch w j Cw) by lia. rewrite (nth_wide ch b j Cb) by lia. lia.
    - inversion E; subst. apply repeat_length.
    - destruct Hwf as [H1 [H2 [H3 H4]]]. destruct Hch as [C1 [C2 [C3 C4]]]. inversion E; subst.
      unfold affine_cell. rewrite !zipWith_length.
      rewrite (nth_wide ch w1 j C1), (nth_wide ch b1 j C2), (nth_wide ch w2 j C3), (nth_wide ch b2 j C4) by lia. lia.
    - inversion E; subst. apply vecmat_length.
    - destruct Hwf as [_ Hb]. inversion E; subst.
      rewrite zipWith_length, vecmat_length. unfold fins. rewrite map_length, (nth_wide ch b j Hch) by lia. lia.
    - eapply lookup_length; eauto.
    - eapply bag_length; [|exact E]. rewrite Forall_forall in Hch. apply Hch. apply nth_In. lia.
    - destruct Hwf as [_ Hb]. inversion E; subst.
      rewrite zipWith_length, vecmat_length. unfold fins. rewrite map_length, (nth_wide ch b j Hch) by lia. lia.
    - destruct Hwf as [_ Hb]. unfold time_cell in E. destruct l as [|y rest]; [discriminate|].
      destruct (_ && _); [|discriminate]. inversion E; subst.
      rewrite zipWith_length, contract_kl_length. unfold fins. rewrite map_length, (nth_wide ch b j Hch) by lia. lia.
  Qed.

  Lemma cells_length : forall stats (x : input S), length (cells S stats x) = input_rows S x.
  Proof. intros stats x. destruct x; simpl; unfold emb_cells; rewrite ?map_length; reflexivity. Qed.

  Theorem forward_with_shape : forall post (c : config S) (x : input S) o,
      wf_config S c -> input_ok S c x -> channels_ok S c ->
      (forall v, length (post v) = length v) ->
      forward_with S post c x = Some o ->
      shape_is (input_rows S x) (ncols S c) (cf_channels S c) o.
  Proof.
    intros post c x o Hwf Hin Hch Hpost Hf.
    rewrite forward_with_cellwise in Hf by assumption.
    destruct (construct_ok S c); [|discriminate].
    destruct (cw_shape _ _ _ _ Hf) as [Hlen [Rm Ro]].
    unfold shape_is. split; [etransitivity; [exact Hlen | apply cells_length]|].
    apply Forall_forall. intros row Hrow.
    split; [apply (proj1 (rect_forall _ o) Ro); assumption|].
    apply Forall_forall. intros v Hv.
    apply In_nth_error in Hrow. destruct Hrow as [r Hr]. apply In_nth_error in Hv. destruct Hv as [j Hj].
    assert (Hg : get2 o r j = Some v) by (unfold get2; rewrite Hr; assumption).
    assert (Hjn : j < ncols S c).
    { rewrite <- (proj1 (rect_forall _ o) Ro row (nth_error_In _ _ Hr)). apply nth_error_Some. congruence. }
    destruct (cw_get2_inv _ _ _ _ _ _ _ Hf Hg) as [cv [_ Hc]].
    unfold cell_fn in Hc.
    destruct (enc_cell S (cf_enc S c) (cf_stats S c) (cf_channels S c) j
                       (na_cell S (cf_na S c) (nth j (cf_stats S c) (dstats S)) cv)) as [o'|] eqn:E; [|discriminate].
    simpl in Hc. inversion Hc; subst v. rewrite Hpost, map_length.
    eapply enc_cell_length; eauto.
  Qed.
End Shape.

(* ============================================================ PARAMETER LOCALITY
   cell_fn for column j reads column j's parameter block only. *)
Section ParamLocal.
  Variable S : Scalar.
  Notation XR := (X (car S)).

  Theorem cell_fn_params_local : forall (post : list XR -> list XR) (e e' : encoder S) st ch na cpost j v,
      enc_agree_at S st j e e' ->
      cell_in_block S st j (na_cell S na (nth j st (dstats S)) v) ->
      cell_fn S (Build_config S e st ch na cpost) post j v = cell_fn S (Build_config S e' st ch na cpost) post j v.
  Proof.
    intros post e e' st ch na cpost j v Hag Hin. unfold cell_fn. simpl.
    destruct (na_cell S na (nth j st (dstats S)) v) as [x|z|l|l|vv] eqn:Ec;
      destruct e; destruct e'; simpl in Hag; try contradiction; simpl; try reflexivity.
    - destruct Hag as [-> ->]. reflexivity.
    - destruct Hag as [-> [-> [-> ->]]]. reflexivity.
    - destruct Hag as [-> ->]. reflexivity.
    - destruct Hag as [-> ->]. reflexivity.
    - (* shared embedding table *)
      destruct Hag as [H0 Hrows]. simpl in Hin. f_equal. unfold embedding_lookup.
      destruct (emb_index z (nth j (emb_offset S st) 0%nat) <? 0)%Z; [reflexivity|].
      destruct (Z_lt_dec z 0) as [Hneg | Hpos].
      + unfold emb_index. destruct (z <? 0)%Z eqn:E; [|apply Z.ltb_ge in E; lia]. simpl. rewrite H0. reflexivity.
      + rewrite Hrows by lia. reflexivity.
    - destruct Hag as [-> ->]. reflexivity.
    - destruct Hag as [-> [-> [-> ->]]]. reflexivity.
    - destruct Hag as [-> ->]. reflexivity.
  Qed.
End ParamLocal.

(* ============================================================ COLUMN ASSOCIATION *)
Lemma nth_error_Some_seq : forall b r, r < b -> True /\ nth_error (seq 0 b) r = Some r.
Proof.
  intros b r H. split; [exact I|]. rewrite (nth_error_nth' (seq 0 b) 0) by (rewrite seq_length; assumption).
  rewrite seq_nth by assumption. reflexivity.
Qed.

Lemma cw_local_col : forall {A B} c (f : nat -> A -> option B) m m' o o' j,
    cw c f m = Some o -> cw c f m' = Some o' ->
    (forall r' j', j' <> j -> get2 m' r' j' = get2 m r' j') ->
    forall r' j', j' <> j -> get2 o' r' j' = get2 o r' j'.
Proof.
  intros A B c f m m' o o' j H H' Hsame r' j' Hne.
  specialize (Hsame r' j' Hne).
  destruct (get2 m r' j') as [x|] eqn:Hx.
  - destruct (cw_get2 _ _ _ _ _ _ _ H Hx) as [y [Hy Fy]].
    destruct (cw_get2 _ _ _ _ _ _ _ H' Hsame) as [y' [Hy' Fy']]. congruence.
  - destruct (get2 o r' j') as [y|] eqn:Hy.
    + destruct (cw_get2_inv _ _ _ _ _ _ _ H Hy) as [x [Hx' _]]. congruence.
    + destruct (get2 o' r' j') as [y'|] eqn:Hy'; [|reflexivity].
      destruct (cw_get2_inv _ _ _ _ _ _ _ H' Hy') as [x [Hx' _]]. congruence.
Qed.

(* changing one input COLUMN of a stype encoder (any rows of it) moves only that output column *)
Theorem forward_with_column_local : forall (S : Scalar) post (c : config S) (x x' : input S) o o' k,
    wf_config S c -> input_ok S c x -> input_ok S c x' ->
    forward_with S post c x = Some o -> forward_with S post c x' = Some o' ->
    (forall r j, j <> k -> get2 (cells S (cf_stats S c) x') r j = get2 (cells S (cf_stats S c) x) r j) ->
    forall r j, j <> k -> get2 o' r j = get2 o r j.
Proof.
  intros S post c x x' o o' k Hwf Hin Hin' Hf Hf' Hsame.
  rewrite forward_with_cellwise in * by assumption.
  destruct (construct_ok S c); [|discriminate].
  eapply cw_local_col; eauto.
Qed.

(* torch.cat(xs, dim=1): where column k of part p ends up *)
Lemma concat_position : forall {A} (ls : list (list A)) p k,
    k < length (nth p ls []) ->
    nth_error (concat ls) (sum (map (@length A) (firstn p ls)) + k) = nth_error (nth p ls []) k.
Proof.
  intros A ls. induction ls as [|l ls IH]; intros p k Hk.
  - destruct p; simpl in Hk; lia.
  - destruct p; simpl in *.
    + unfold sum. simpl. rewrite nth_error_app1 by assumption. reflexivity.
    + unfold sum in *. simpl. rewrite nth_error_app2 by lia.
      replace (length l + fold_right Nat.add 0 (map (@length A) (firstn p ls)) + k - length l)
        with (fold_right Nat.add 0 (map (@length A) (firstn p ls)) + k) by lia.
      apply IH. assumption.
Qed.

Theorem hcat_position : forall {A} b (xs : list (mat A)) (widths : list nat) o r p k,
    hcat b xs = Some o -> r < b ->
    Forall2 (fun x w => rect w x = true) xs widths ->
    k < nth p widths 0 ->
    get2 o r (col_offset widths p + k) = get2 (nth p xs []) r k.
Proof.
  intros A b xs widths o r p k H Hr HW Hk. unfold hcat in H.
  destruct (forallb (fun x => length x =? b) xs) eqn:Hb; [|discriminate]. inversion H; subst o. clear H.
  unfold get2. rewrite nth_error_map. rewrite (proj2 (nth_error_Some_seq b r Hr)). simpl.
  assert (Hlen : forall q x, nth_error xs q = Some x -> length (nth r x []) = nth q widths 0 /\ length x = b).
  { intros q x Hq. destruct (Forall2_nth_error_l _ _ _ _ _ HW Hq) as [w [Hw Hrect]].
    rewrite (nth_error_nth _ _ _ Hw).
    rewrite forallb_forall in Hb. pose proof (Hb x (nth_error_In _ _ Hq)) as Hx. apply Nat.eqb_eq in Hx.
    split; [|assumption].
    apply (proj1 (rect_forall _ x) Hrect). apply nth_In. lia. }
  assert (Hp : p < length xs).
  { destruct (Nat.lt_ge_cases p (length xs)) as [L | G]; [assumption|].
    assert (Hl : length xs = length widths) by (clear - HW; induction HW; simpl; congruence).
    rewrite nth_overflow in Hk by lia. lia. }
  destruct (nth_error xs p) as [xp|] eqn:Hxp; [|apply nth_error_None in Hxp; lia].
  destruct (Hlen p xp Hxp) as [Hwp Hbp].
  assert (Hoff : col_offset widths p = sum (map (@length A) (firstn p (map (fun x => nth r x []) xs)))).
  { unfold col_offset. f_equal. clear Hk Hp Hxp Hwp Hbp xp. revert widths HW Hlen p.
    induction xs as [|x xs IH]; intros widths HW Hlen p; inversion HW; subst; destruct p; simpl; try reflexivity.
    f_equal.
    - destruct (Hlen 0 x eq_refl) as [E _]. simpl in E. symmetry. exact E.
    - apply IH; [simpl in Hb; apply andb_true_iff in Hb; tauto | assumption |].
      intros q x0 Hq. apply (Hlen (Datatypes.S q) x0 Hq). }
  assert (Exp : nth p xs [] = xp) by (apply nth_error_nth; assumption).
  assert (E1 : nth p (map (fun x : list (list A) => nth r x []) xs) [] = nth r xp []).
  { rewrite (nth_indep _ [] ((fun x : list (list A) => nth r x []) [])) by (rewrite map_length; assumption).
    rewrite (map_nth (fun x : list (list A) => nth r x [])). rewrite <- Exp. reflexivity. }
  rewrite Hoff, Exp.
  rewrite concat_position by (rewrite E1, Hwp; assumption).
  rewrite E1.
  destruct (nth_error xp r) as [row|] eqn:Hrow.
  - rewrite (nth_error_nth _ _ _ Hrow). reflexivity.
  - apply nth_error_None in Hrow. lia.
Qed.
