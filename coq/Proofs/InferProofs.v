(* Lemmas about Model/Infer.v (C18). *)
From Coq Require Import List ZArith QArith Bool String Ascii Arith Lia Permutation.
From PF Require Import Gen.Tables Model.Infer.
Import ListNotations.
Close Scope Q_scope.
Open Scope nat_scope.
Open Scope bool_scope.

(* ------------------------------------------------------------------ generic *)
Section Generic.
  Context {A : Type}.

  Lemma forallb_perm (f : A -> bool) l l' :
    Permutation l l' -> forallb f l = forallb f l'.
  Proof.
    induction 1; simpl; auto.
    - now rewrite IHPermutation.
    - destruct (f x), (f y); auto.
    - congruence.
  Qed.

  Lemma existsb_perm (f : A -> bool) l l' :
    Permutation l l' -> existsb f l = existsb f l'.
  Proof.
    induction 1; simpl; auto.
    - now rewrite IHPermutation.
    - destruct (f x), (f y); auto.
    - congruence.
  Qed.

  Lemma filter_perm (f : A -> bool) l l' :
    Permutation l l' -> Permutation (filter f l) (filter f l').
  Proof.
    induction 1; simpl; auto.
    - destruct (f x); auto.
    - destruct (f x), (f y); auto. apply perm_swap.
    - eapply perm_trans; eauto.
  Qed.

  Lemma flat_map_perm {B} (f : A -> list B) l l' :
    Permutation l l' -> Permutation (flat_map f l) (flat_map f l').
  Proof.
    induction 1; simpl; auto.
    - now apply Permutation_app_head.
    - rewrite !app_assoc. apply Permutation_app_tail, Permutation_app_comm.
    - eapply perm_trans; eauto.
  Qed.

  Lemma count_by_perm (eqb : A -> A -> bool) x l l' :
    Permutation l l' -> count_by eqb x l = count_by eqb x l'.
  Proof. intros H. unfold count_by. apply Permutation_length, filter_perm, H. Qed.
End Generic.

Lemma list_min_cons2 x y r : list_min (x :: y :: r) = Nat.min x (list_min (y :: r)).
Proof. reflexivity. Qed.

Lemma list_min_spec l : l <> [] -> In (list_min l) l /\ forall y, In y l -> list_min l <= y.
Proof.
  induction l as [|x r IH]; [congruence|]. intros _.
  destruct r as [|y r'].
  - simpl. split; [auto|]. intros y [<-|[]]. lia.
  - rewrite list_min_cons2. destruct IH as [Hin Hle]; [congruence|].
    split.
    + destruct (Nat.min_spec x (list_min (y :: r'))) as [[_ ->]|[_ ->]]; [left; auto | right; exact Hin].
    + intros z [<-|Hz]; [lia|]. specialize (Hle z Hz). lia.
Qed.

Lemma list_min_perm l l' : Permutation l l' -> list_min l = list_min l'.
Proof.
  intros H. destruct l as [|x r].
  - apply Permutation_nil in H. now subst.
  - assert (Hl' : l' <> []) by (intros ->; apply Permutation_sym, Permutation_nil in H; discriminate).
    destruct (list_min_spec (x :: r)) as [I1 L1]; [congruence|].
    destruct (list_min_spec l' Hl') as [I2 L2].
    apply Nat.le_antisymm.
    + apply L1. eapply Permutation_in; [apply Permutation_sym, H | exact I2].
    + apply L2. eapply Permutation_in; [exact H | exact I1].
Qed.

Lemma list_max_perm l l' : Permutation l l' -> list_max l = list_max l'.
Proof. induction 1; simpl; lia. Qed.

Lemma min_count_by_perm {A} (eqb : A -> A -> bool) l l' :
  Permutation l l' -> min_count_by eqb l = min_count_by eqb l'.
Proof.
  intros H. unfold min_count_by. apply list_min_perm.
  rewrite (map_ext (fun x => count_by eqb x l) (fun x => count_by eqb x l')).
  - apply Permutation_map, H.
  - intros x. apply count_by_perm, H.
Qed.

(* the multiplicity of the rarest value is the least multiplicity of any cell *)
Lemma min_count_by_le {A} (eqb : A -> A -> bool) l x :
  In x l -> min_count_by eqb l <= count_by eqb x l.
Proof.
  intros Hx. unfold min_count_by.
  destruct (list_min_spec (map (fun y => count_by eqb y l) l)) as [_ Hle].
  - destruct l; [destruct Hx | discriminate].
  - apply Hle, in_map_iff. eauto.
Qed.

Lemma min_count_by_witness {A} (eqb : A -> A -> bool) l :
  l <> [] -> exists x, In x l /\ min_count_by eqb l = count_by eqb x l.
Proof.
  intros Hl. unfold min_count_by.
  destruct (list_min_spec (map (fun y => count_by eqb y l) l)) as [Hin _].
  - destruct l; [congruence | discriminate].
  - apply in_map_iff in Hin. destruct Hin as [x [E I]]. eauto.
Qed.

(* ------------------------------------------------------------------ dropna / dtype *)
Lemma dropna_perm col col' : Permutation col col' -> Permutation (dropna col) (dropna col').
Proof. apply filter_perm. Qed.

Lemma has_nan_perm col col' : Permutation col col' -> has_nan col = has_nan col'.
Proof. apply existsb_perm. Qed.

Lemma dtype_of_perm col col' : Permutation col col' -> dtype_of col = dtype_of col'.
Proof.
  intros H. unfold dtype_of.
  rewrite (has_nan_perm _ _ H).
  pose proof (dropna_perm _ _ H) as Hd.
  now rewrite !(forallb_perm _ _ _ Hd).
Qed.

Lemma dropna_no_missing col : forallb (fun c => negb (is_missing c)) (dropna col) = true.
Proof.
  apply forallb_forall. intros c Hc. apply filter_In in Hc. tauto.
Qed.

Lemma dropna_idem col : dropna (dropna col) = dropna col.
Proof.
  unfold dropna. induction col as [|c r IH]; simpl; auto.
  destruct (is_missing c) eqn:E; simpl; [auto|]. rewrite E. simpl. now rewrite IH.
Qed.

Lemma dropna_id col : has_nan col = false -> dropna col = col.
Proof.
  unfold has_nan, dropna. induction col as [|c r IH]; simpl; auto.
  intros H. apply orb_false_iff in H. destruct H as [H1 H2]. rewrite H1. simpl. now rewrite IH.
Qed.

(* if every cell satisfies P or is missing, every non-missing cell satisfies P *)
Lemma forallb_dropna (P : cell -> bool) col :
  forallb (fun c => P c || is_missing c) col = true -> forallb P (dropna col) = true.
Proof.
  unfold dropna. induction col as [|c r IH]; simpl; auto.
  intros H. apply andb_true_iff in H. destruct H as [H1 H2].
  destruct (is_missing c) eqn:E; simpl; auto.
  rewrite orb_false_r in H1. now rewrite H1, IH.
Qed.

(* two kinds that exclude each other cannot both hold of a non-empty series *)
Lemma forallb_disjoint (P Q : cell -> bool) ser :
  (forall c, P c = true -> Q c = false) -> ser <> [] -> forallb P ser = true -> forallb Q ser = false.
Proof.
  intros D Hne H. destruct ser as [|c r]; [congruence|].
  simpl in *. apply andb_true_iff in H. destruct H as [H _]. now rewrite (D c H).
Qed.

Lemma forallb_weaken (P Q : cell -> bool) ser :
  (forall c, P c = true -> Q c = true) -> forallb P ser = true -> forallb Q ser = true.
Proof.
  intros D H. apply forallb_forall. intros c Hc. apply D. rewrite forallb_forall in H. auto.
Qed.

Lemma forallb_existsb_false (P Q : cell -> bool) ser :
  (forall c, P c = true -> Q c = false) -> forallb P ser = true -> existsb Q ser = false.
Proof.
  intros D H. induction ser as [|c r IH]; simpl in *; auto.
  apply andb_true_iff in H. destruct H as [H1 H2]. now rewrite (D c H1), IH.
Qed.

(* ------------------------------------------------------------------ the list branch in closed form *)
Definition list_allnum (c : cell) : bool :=
  match c with LList l => forallb is_num_elem l | _ => true end.
Definition list_allstr (c : cell) : bool :=
  match c with LList l => forallb is_str_elem l | _ => true end.
Definition list_emb_ok (len0 : nat) (c : cell) : bool :=
  match c with
  | LList l => (len0 =? List.length l) && forallb is_float_elem l && forallb is_finite_elem l
  | _ => true
  end.
(* the flag is only updated on all-numeric lists *)
Definition list_emb_flag (len0 : nat) (c : cell) : bool :=
  if list_allnum c then list_emb_ok len0 c else true.

Definition list_result (n s e : bool) : outcome :=
  if n then (if e then Inferred (Some st_embedding) else Inferred (Some st_sequence_numerical))
  else if s then Inferred (Some st_multicategorical)
  else Inferred None.

Lemma infer_list_loop_closed len0 ser : forall n s e,
  forallb is_list ser = true ->
  infer_list_loop len0 ser n s e =
  list_result (n && forallb list_allnum ser) (s && forallb list_allstr ser)
              (e && forallb (list_emb_flag len0) ser).
Proof.
  induction ser as [|c r IH]; intros n s e H; simpl.
  - now rewrite !andb_true_r.
  - simpl in H. apply andb_true_iff in H. destruct H as [Hc Hr].
    destruct c; try discriminate. rewrite (IH _ _ _ Hr). unfold list_emb_flag. simpl.
    destruct (forallb is_num_elem l), (forallb is_str_elem l), n, s, e; simpl;
      try reflexivity;
      destruct ((len0 =? List.length l) && forallb is_float_elem l && forallb is_finite_elem l); reflexivity.
Qed.

Lemma emb_flag_eq_ok len0 ser :
  forallb list_allnum ser = true ->
  forallb (list_emb_flag len0) ser = forallb (list_emb_ok len0) ser.
Proof.
  induction ser as [|c r IH]; simpl; auto. intros H.
  apply andb_true_iff in H. destruct H as [H1 H2].
  unfold list_emb_flag at 1. rewrite H1, (IH H2). reflexivity.
Qed.

Lemma emb_ok_len len0 ser l :
  forallb (list_emb_ok len0) ser = true -> In (LList l) ser -> List.length l = len0.
Proof.
  intros H Hin. rewrite forallb_forall in H. specialize (H _ Hin). simpl in H.
  apply andb_true_iff in H. destruct H as [H _]. apply andb_true_iff in H. destruct H as [H _].
  apply Nat.eqb_eq in H. auto.
Qed.

(* "all lists have the length of the first one" does not depend on which one is first *)
Lemma emb_ok_first_indep f f' ser ser' :
  Permutation ser ser' -> In (LList f) ser -> In (LList f') ser' ->
  forallb (list_emb_ok (List.length f)) ser = true ->
  forallb (list_emb_ok (List.length f')) ser' = true.
Proof.
  intros HP Hf Hf' H.
  assert (E : List.length f' = List.length f).
  { eapply emb_ok_len; [exact H|]. eapply Permutation_in; [apply Permutation_sym, HP | exact Hf']. }
  rewrite E. now rewrite <- (forallb_perm _ _ _ HP).
Qed.

(* the result of the list branch, for a series of lists, as a function of the series alone *)
Definition head_len (ser : list cell) : nat :=
  match ser with LList f :: _ => List.length f | _ => 0 end.

Definition list_branch_result (ser : list cell) : outcome :=
  list_result (forallb list_allnum ser) (forallb list_allstr ser)
              (forallb (list_emb_flag (head_len ser)) ser).

Lemma list_branch_perm ser ser' :
  forallb is_list ser = true -> Permutation ser ser' ->
  list_branch_result ser = list_branch_result ser'.
Proof.
  intros HL HP. unfold list_branch_result.
  rewrite <- (forallb_perm list_allnum _ _ HP), <- (forallb_perm list_allstr _ _ HP).
  destruct (forallb list_allnum ser) eqn:HN; [|reflexivity].
  assert (HN' : forallb list_allnum ser' = true) by now rewrite <- (forallb_perm _ _ _ HP).
  rewrite (emb_flag_eq_ok _ _ HN), (emb_flag_eq_ok _ _ HN').
  assert (HL' : forallb is_list ser' = true) by now rewrite <- (forallb_perm _ _ _ HP).
  destruct ser as [|c r].
  { apply Permutation_nil in HP. now subst. }
  destruct ser' as [|c' r'].
  { apply Permutation_sym, Permutation_nil in HP. discriminate. }
  destruct c; try discriminate HL. destruct c'; try discriminate HL'.
  simpl head_len.
  destruct (forallb (list_emb_ok (List.length l)) (LList l :: r)) eqn:E1;
  destruct (forallb (list_emb_ok (List.length l0)) (LList l0 :: r')) eqn:E2; auto.
  - pose proof (emb_ok_first_indep l l0 _ _ HP (or_introl eq_refl) (or_introl eq_refl) E1). congruence.
  - pose proof (emb_ok_first_indep l0 l _ _ (Permutation_sym HP) (or_introl eq_refl) (or_introl eq_refl) E2).
    congruence.
Qed.

(* ------------------------------------------------------------------ unfolding infer_series_stype *)
Lemma infer_all_lists col :
  forallb is_list (dropna col) = true -> dropna col <> [] ->
  infer_series_stype col = list_branch_result (dropna col).
Proof.
  intros HL Hne. unfold infer_series_stype.
  destruct (dropna col) as [|c r] eqn:E; [congruence|].
  destruct c; try discriminate HL.
  rewrite infer_list_loop_closed by exact HL. reflexivity.
Qed.

Lemma infer_no_list_head col :
  (match dropna col with c :: _ => is_list c = false | [] => True end) ->
  infer_series_stype col =
  match dropna col with
  | [] => Inferred None
  | _ :: _ => infer_scalar_branch (has_nan col) (dtype_of col) (dropna col)
  end.
Proof.
  unfold infer_series_stype. destruct (dropna col) as [|c r]; auto.
  destruct c; simpl; intros H; auto; discriminate.
Qed.

Lemma existsb_dropna_false (P : cell -> bool) col :
  existsb P col = false -> existsb P (dropna col) = false.
Proof.
  unfold dropna. induction col as [|c r IH]; simpl; auto.
  intros H. apply orb_false_iff in H. destruct H as [H1 H2].
  destruct (is_missing c); simpl; auto. now rewrite H1, IH.
Qed.

Lemma infer_no_list col :
  existsb is_list (dropna col) = false ->
  infer_series_stype col =
  match dropna col with
  | [] => Inferred None
  | _ :: _ => infer_scalar_branch (has_nan col) (dtype_of col) (dropna col)
  end.
Proof.
  intros H. apply infer_no_list_head.
  destruct (dropna col) as [|c r]; auto. simpl in H. apply orb_false_iff in H. tauto.
Qed.

(* ------------------------------------------------------------------ the scalar branch *)
Lemma max_min_count_perm ser ser' : Permutation ser ser' -> max_min_count ser = max_min_count ser'.
Proof.
  intros H. unfold max_min_count. f_equal.
  induction possible_seps as [|sep r IH]; simpl; auto.
  rewrite IH. f_equal. unfold sep_min_count.
  destruct (sep_char sep); auto.
  rewrite (min_count_by_perm String.eqb _ _ (flat_map_perm _ _ _ H)). reflexivity.
Qed.

(* ---- date recognition: explicit formats are order independent, the guessed one is not *)
Definition explicit_parse (ser : list cell) : bool :=
  existsb (fun fo => match fo with Some f => parses_with f ser | None => false end) possible_time_formats.

(* the column parses under an explicit candidate format, or under no format at all *)
Definition date_robust (ser : list cell) : Prop :=
  explicit_parse ser = true \/ (forall f, parses_with f ser = false).

Lemma parses_with_perm f ser ser' : Permutation ser ser' -> parses_with f ser = parses_with f ser'.
Proof. apply forallb_perm. Qed.

Lemma is_timestamp_explicit ser : explicit_parse ser = true -> is_timestamp ser = true.
Proof.
  unfold explicit_parse, is_timestamp. induction possible_time_formats as [|fo r IH]; simpl; [discriminate|].
  intros H. apply orb_true_iff in H. destruct H as [H|H].
  - destruct fo; [now rewrite H | discriminate].
  - rewrite (IH H). apply orb_true_r.
Qed.

Lemma is_timestamp_none ser : (forall f, parses_with f ser = false) -> is_timestamp ser = false.
Proof.
  intros H. unfold is_timestamp. induction possible_time_formats as [|fo r IH]; simpl; auto.
  rewrite IH, orb_false_r. destruct fo; [apply H|].
  unfold parses_guessing. destruct ser as [|c t]; auto. destruct c; auto.
Qed.

Lemma explicit_parse_perm ser ser' : Permutation ser ser' -> explicit_parse ser = explicit_parse ser'.
Proof.
  intros H. unfold explicit_parse. induction possible_time_formats as [|fo r IH]; simpl; auto.
  rewrite IH. destruct fo; auto. now rewrite (parses_with_perm s _ _ H).
Qed.

Lemma date_robust_perm ser ser' : Permutation ser ser' -> date_robust ser -> date_robust ser'.
Proof.
  intros H [A|B]; [left | right].
  - now rewrite <- (explicit_parse_perm _ _ H).
  - intros f. now rewrite <- (parses_with_perm f _ _ H).
Qed.

Lemma is_timestamp_perm ser ser' :
  date_robust ser -> Permutation ser ser' -> is_timestamp ser = is_timestamp ser'.
Proof.
  intros R H. pose proof (date_robust_perm _ _ H R) as R'.
  destruct R as [A|B].
  - rewrite (is_timestamp_explicit _ A). symmetry. apply is_timestamp_explicit.
    now rewrite <- (explicit_parse_perm _ _ H).
  - rewrite (is_timestamp_none _ B). symmetry. apply is_timestamp_none.
    intros f. now rewrite <- (parses_with_perm f _ _ H).
Qed.

(* a cell that no format accepts (anything but a date string) makes the column robust *)
Lemma parses_with_false f ser x :
  In x ser -> cell_accepts f x = false -> parses_with f ser = false.
Proof.
  intros I A. unfold parses_with. destruct (forallb (cell_accepts f) ser) eqn:Z; auto.
  rewrite forallb_forall in Z. rewrite (Z _ I) in A. discriminate.
Qed.

Lemma non_date_cell_robust ser x : In x ser -> is_datestr x = false -> date_robust ser.
Proof.
  intros I D. right. intros f. apply (parses_with_false f ser x I). destruct x; auto; discriminate.
Qed.

Lemma explicit_format_robust ser f :
  In (Some f) possible_time_formats -> parses_with f ser = true -> date_robust ser.
Proof.
  intros I P. left. unfold explicit_parse. apply existsb_exists. exists (Some f). auto.
Qed.

Lemma infers_boolean_perm ser ser' : Permutation ser ser' -> infers_boolean ser = infers_boolean ser'.
Proof.
  intros H. unfold infers_boolean. rewrite (forallb_perm is_bool_cell _ _ H).
  destruct ser, ser'; auto.
  - apply Permutation_nil in H. discriminate.
  - apply Permutation_sym, Permutation_nil in H. discriminate.
Qed.

Lemma infer_scalar_branch_perm h d ser ser' :
  Permutation ser ser' -> is_timestamp ser = is_timestamp ser' ->
  infer_scalar_branch h d ser = infer_scalar_branch h d ser'.
Proof.
  intros H T. unfold infer_scalar_branch, min_count.
  rewrite T, (forallb_perm is_integral _ _ H), (infers_boolean_perm _ _ H),
          (min_count_by_perm cell_eqb _ _ H), (max_min_count_perm _ _ H).
  reflexivity.
Qed.

Lemma infer_scalar_branch_hasnan_irrelevant h h' d ser :
  is_numeric_dtype d = false -> infer_scalar_branch h d ser = infer_scalar_branch h' d ser.
Proof. intros H. unfold infer_scalar_branch. now rewrite H. Qed.

(* ------------------------------------------------------------------ homogeneous columns *)
(* all non-missing cells are lists, or none is *)
Definition homogeneous (col : list cell) : Prop :=
  forallb is_list (dropna col) = true \/ existsb is_list col = false.

Lemma homogeneous_perm col col' : Permutation col col' -> homogeneous col -> homogeneous col'.
Proof.
  intros H [A|B]; [left|right].
  - now rewrite <- (forallb_perm _ _ _ (dropna_perm _ _ H)).
  - now rewrite <- (existsb_perm _ _ _ H).
Qed.

(* "the first non-missing cell is a list" does not depend on the row order *)
Definition first_is_list (col : list cell) : bool :=
  match dropna col with c :: _ => is_list c | [] => false end.

Lemma first_is_list_perm col col' :
  homogeneous col -> Permutation col col' -> first_is_list col = first_is_list col'.
Proof.
  intros Hh HP. pose proof (dropna_perm _ _ HP) as HD. unfold first_is_list.
  destruct Hh as [A|B].
  - assert (A' : forallb is_list (dropna col') = true) by now rewrite <- (forallb_perm _ _ _ HD).
    destruct (dropna col) as [|c r], (dropna col') as [|c' r']; auto.
    + apply Permutation_nil in HD. discriminate.
    + apply Permutation_sym, Permutation_nil in HD. discriminate.
    + simpl in A, A'. apply andb_true_iff in A, A'. destruct A as [-> _], A' as [-> _]. reflexivity.
  - pose proof (existsb_dropna_false _ _ B) as B1.
    assert (B' : existsb is_list (dropna col') = false) by now rewrite <- (existsb_perm _ _ _ HD).
    destruct (dropna col) as [|c r], (dropna col') as [|c' r']; auto.
    + apply Permutation_nil in HD. discriminate.
    + apply Permutation_sym, Permutation_nil in HD. discriminate.
    + simpl in B1, B'. apply orb_false_iff in B1, B'. destruct B1 as [-> _], B' as [-> _]. reflexivity.
Qed.

Theorem infer_perm_invariant col col' :
  homogeneous col -> date_robust (dropna col) -> Permutation col col' ->
  infer_series_stype col = infer_series_stype col'.
Proof.
  intros Hh HR HP. pose proof (dropna_perm _ _ HP) as HD.
  destruct Hh as [A|B].
  - assert (A' : forallb is_list (dropna col') = true) by now rewrite <- (forallb_perm _ _ _ HD).
    destruct (dropna col) as [|c r] eqn:E.
    + apply Permutation_nil in HD. unfold infer_series_stype. now rewrite E, HD.
    + assert (Hne' : dropna col' <> []).
      { intros Z. rewrite Z in HD. apply Permutation_sym, Permutation_nil in HD. discriminate. }
      rewrite (infer_all_lists col), (infer_all_lists col'); auto; rewrite ?E; try congruence.
      rewrite <- E. apply list_branch_perm; [now rewrite E | now rewrite E].
  - pose proof (existsb_dropna_false _ _ B) as B1.
    assert (B' : existsb is_list (dropna col') = false) by now rewrite <- (existsb_perm _ _ _ HD).
    rewrite (infer_no_list col B1), (infer_no_list col' B').
    rewrite <- (has_nan_perm _ _ HP), <- (dtype_of_perm _ _ HP).
    destruct (dropna col) as [|c r] eqn:E, (dropna col') as [|c' r'] eqn:E'; auto.
    + apply Permutation_nil in HD. discriminate.
    + apply Permutation_sym, Permutation_nil in HD. discriminate.
    + apply infer_scalar_branch_perm; [exact HD | apply is_timestamp_perm; assumption].
Qed.

(* the model never predicts an exception *)
Lemma infer_list_loop_no_raise len0 ser : forall n s e, infer_list_loop len0 ser n s e <> Raises.
Proof.
  induction ser as [|c r IH]; intros n s e; simpl.
  - destruct n, s, e; discriminate.
  - destruct c; try discriminate. apply IH.
Qed.

Lemma infer_no_raise col : infer_series_stype col <> Raises.
Proof.
  unfold infer_series_stype. destruct (dropna col) as [|c r]; [discriminate|].
  destruct c; try apply infer_list_loop_no_raise;
    unfold infer_scalar_branch;
    repeat match goal with |- context [if ?b then _ else _] => destruct b end; discriminate.
Qed.

(* ------------------------------------------------------------------ missing cells in string / list columns *)
Definition strlist_cell (c : cell) : bool := is_strlike c || is_list c.
Definition strlist_col (col : list cell) : Prop :=
  forallb (fun c => strlist_cell c || is_missing c) col = true.

Lemma strlist_dtype col :
  strlist_col col ->
  dtype_of col = if forallb is_strlike (dropna col) then DString else DObject.
Proof.
  intros H. apply forallb_dropna in H. unfold dtype_of.
  destruct (forallb is_strlike (dropna col)) eqn:E; auto.
  (* some non-missing cell is a list *)
  assert (X : exists c, In c (dropna col) /\ is_list c = true).
  { clear -H E. induction (dropna col) as [|c r IH]; simpl in *; [discriminate|].
    apply andb_true_iff in H. destruct H as [H1 H2].
    destruct (is_strlike c) eqn:S.
    - simpl in E. destruct (IH H2 E) as [x [I L]]. eauto.
    - unfold strlist_cell in H1. rewrite S in H1. simpl in H1. eauto. }
  destruct X as [c [I L]]. destruct c; try discriminate L.
  assert (F : forall P : cell -> bool, P (LList l) = false -> forallb P (dropna col) = false).
  { intros P HP. destruct (forallb P (dropna col)) eqn:Z; auto.
    rewrite forallb_forall in Z. rewrite (Z _ I) in HP. discriminate. }
  rewrite !F; auto.
Qed.

Lemma strlist_col_of_dropna col col' :
  dropna col' = dropna col -> strlist_col col -> strlist_col col'.
Proof.
  intros E H. unfold strlist_col in *. apply forallb_forall. intros c Hc.
  destruct (is_missing c) eqn:M; [now rewrite orb_true_r|].
  assert (I : In c (dropna col')) by (apply filter_In; rewrite M; auto).
  rewrite E in I. apply filter_In in I. destruct I as [I _].
  rewrite forallb_forall in H. specialize (H c I). now rewrite M in H.
Qed.

Theorem infer_missing_invariant col col' :
  strlist_col col -> dropna col' = dropna col ->
  infer_series_stype col' = infer_series_stype col.
Proof.
  intros H E. pose proof (strlist_col_of_dropna _ _ E H) as H'.
  unfold infer_series_stype. rewrite E.
  destruct (dropna col) as [|c r] eqn:D; auto.
  rewrite (strlist_dtype _ H), (strlist_dtype _ H'), E, D.
  destruct c; auto;
    apply infer_scalar_branch_hasnan_irrelevant;
    destruct (forallb is_strlike _); reflexivity.
Qed.

Lemma infer_dropna col : strlist_col col -> infer_series_stype (dropna col) = infer_series_stype col.
Proof. intros H. apply (infer_missing_invariant col (dropna col) H (dropna_idem col)). Qed.

Theorem infer_perm_missing_invariant col col' :
  homogeneous col -> date_robust (dropna col) -> strlist_col col -> Permutation (dropna col) (dropna col') ->
  infer_series_stype col' = infer_series_stype col.
Proof.
  intros Hh HR Hs HP.
  assert (Hs1 : strlist_col (dropna col)) by (apply (strlist_col_of_dropna col); [apply dropna_idem | exact Hs]).
  assert (Hs2 : strlist_col (dropna col')).
  { unfold strlist_col in *. now rewrite <- (forallb_perm _ _ _ HP). }
  assert (Hs' : strlist_col col') by (apply (strlist_col_of_dropna (dropna col')); [now rewrite dropna_idem | exact Hs2]).
  assert (Hd : homogeneous (dropna col)).
  { destruct Hh as [A|B]; [left | right]; [now rewrite dropna_idem | now apply existsb_dropna_false]. }
  rewrite <- (infer_dropna col' Hs'), <- (infer_dropna col Hs).
  symmetry. apply infer_perm_invariant; try assumption. now rewrite dropna_idem.
Qed.

(* ------------------------------------------------------------------ the decision table *)
Lemma table_all_missing col :
  forallb is_missing col = true -> infer_series_stype col = Inferred None.
Proof.
  intros H. unfold infer_series_stype.
  replace (dropna col) with (@nil cell); auto.
  unfold dropna. induction col as [|c r IH]; simpl in *; auto.
  apply andb_true_iff in H. destruct H as [-> H2]. simpl. auto.
Qed.

Definition is_float_cell (c : cell) : bool := match c with Float _ => true | _ => false end.
Definition is_str_cell (c : cell) : bool := match c with Str _ => true | _ => false end.

Ltac kind_false := intros c; destruct c; simpl; intros; try discriminate; auto.

Lemma head_not_list (P : cell -> bool) ser :
  (forall c, P c = true -> is_list c = false) -> forallb P ser = true ->
  match ser with c :: _ => is_list c = false | [] => True end.
Proof.
  intros D H. destruct ser as [|c r]; auto. simpl in H. apply andb_true_iff in H. apply D. tauto.
Qed.

Lemma table_float col :
  forallb (fun c => is_float_cell c || is_missing c) col = true ->
  dropna col <> [] ->
  (has_nan col = false \/ existsb (fun c => negb (is_integral c)) (dropna col) = true) ->
  infer_series_stype col = Inferred (Some st_numerical).
Proof.
  intros H Hne Hc. apply forallb_dropna in H.
  rewrite infer_no_list_head by (apply (head_not_list is_float_cell); auto; kind_false).
  assert (D : dtype_of col = DFloat).
  { unfold dtype_of.
    rewrite (forallb_disjoint is_float_cell is_strlike), (forallb_disjoint is_float_cell is_bool_cell),
            (forallb_disjoint is_float_cell is_int_cell), (forallb_weaken is_float_cell is_num_cell);
      auto; kind_false. }
  destruct (dropna col) as [|c r] eqn:E; [congruence|]. rewrite <- E in *.
  unfold infer_scalar_branch. rewrite D. simpl.
  replace (has_nan col && forallb is_integral (dropna col)) with false; auto.
  destruct Hc as [->|Hc]; auto.
  destruct (forallb is_integral (dropna col)) eqn:Z; [|now rewrite andb_false_r].
  exfalso. apply existsb_exists in Hc. destruct Hc as [x [I N]].
  rewrite forallb_forall in Z. rewrite (Z _ I) in N. discriminate.
Qed.

Lemma timestamp_false_of_cell ser x :
  In x ser -> is_datestr x = false -> is_timestamp ser = false.
Proof.
  intros I D. apply is_timestamp_none. intros f. apply (parses_with_false f ser x I).
  destruct x; auto; discriminate.
Qed.

Lemma table_bool col :
  forallb (fun c => is_bool_cell c || is_missing c) col = true -> dropna col <> [] ->
  infer_series_stype col = Inferred (Some st_categorical).
Proof.
  intros H Hne. apply forallb_dropna in H.
  rewrite infer_no_list_head by (apply (head_not_list is_bool_cell); auto; kind_false).
  assert (D : dtype_of col = if has_nan col then DObject else DBool).
  { unfold dtype_of. rewrite (forallb_disjoint is_bool_cell is_strlike), H; auto. kind_false. }
  destruct (dropna col) as [|c r] eqn:E; [congruence|]. rewrite <- E in *.
  unfold infer_scalar_branch. rewrite D. destruct (has_nan col); simpl; [|reflexivity].
  assert (T : is_timestamp (dropna col) = false).
  { apply (timestamp_false_of_cell _ c); [rewrite E; simpl; auto|].
    rewrite E in H. simpl in H. apply andb_true_iff in H. destruct H as [H _]. destruct c; auto; discriminate. }
  assert (B : infers_boolean (dropna col) = true).
  { unfold infers_boolean. rewrite H. now rewrite E. }
  rewrite T, B, orb_true_r. reflexivity.
Qed.

Lemma table_int col :
  forallb (fun c => is_int_cell c || is_missing c) col = true ->
  dropna col <> [] ->
  infer_series_stype col =
  Inferred (Some (if above_thresh (min_count (dropna col)) then st_categorical else st_numerical)).
Proof.
  intros H Hne. apply forallb_dropna in H.
  rewrite infer_no_list_head by (apply (head_not_list is_int_cell); auto; kind_false).
  assert (D : dtype_of col = if has_nan col then DFloat else DInt).
  { unfold dtype_of.
    rewrite (forallb_disjoint is_int_cell is_strlike), (forallb_disjoint is_int_cell is_bool_cell), H;
      auto; kind_false. }
  assert (I : forallb is_integral (dropna col) = true).
  { apply (forallb_weaken is_int_cell); auto. kind_false. }
  destruct (dropna col) as [|c r] eqn:E; [congruence|]. rewrite <- E in *.
  unfold infer_scalar_branch. rewrite D, I.
  destruct (has_nan col); simpl; destruct (above_thresh (min_count (dropna col))); reflexivity.
Qed.

Lemma table_date col f :
  In (Some f) possible_time_formats ->
  forallb (fun c => cell_accepts f c || is_missing c) col = true ->
  dropna col <> [] ->
  infer_series_stype col = Inferred (Some st_timestamp).
Proof.
  intros Hf H Hne. apply forallb_dropna in H.
  assert (HD : forallb is_datestr (dropna col) = true).
  { apply (forallb_weaken (cell_accepts f)); auto. kind_false. }
  rewrite infer_no_list_head by (apply (head_not_list is_datestr); auto; kind_false).
  assert (D : dtype_of col = DString).
  { unfold dtype_of. rewrite (forallb_weaken is_datestr is_strlike); auto. kind_false. }
  assert (T : is_timestamp (dropna col) = true).
  { apply is_timestamp_explicit. unfold explicit_parse. apply existsb_exists. exists (Some f). auto. }
  destruct (dropna col) as [|c r] eqn:E; [congruence|]. rewrite <- E in *.
  unfold infer_scalar_branch. rewrite D, T. reflexivity.
Qed.

Lemma table_string col :
  forallb (fun c => is_strlike c || is_missing c) col = true ->
  existsb is_str_cell col = true ->            (* at least one string that is not a date *)
  infer_series_stype col =
  Inferred (Some (if above_thresh (min_count (dropna col)) then st_categorical
                  else if above_thresh (max_min_count (dropna col)) then st_multicategorical
                  else st_text_embedded)).
Proof.
  intros H Hs. apply forallb_dropna in H.
  rewrite infer_no_list_head by (apply (head_not_list is_strlike); auto; kind_false).
  assert (D : dtype_of col = DString) by (unfold dtype_of; now rewrite H).
  assert (T : is_timestamp (dropna col) = false).
  { apply existsb_exists in Hs. destruct Hs as [x [I S]].
    assert (In x (dropna col)) by (apply filter_In; destruct x; try discriminate; auto).
    apply (timestamp_false_of_cell _ x); auto. destruct x; auto; discriminate. }
  assert (Hne : dropna col <> []).
  { apply existsb_exists in Hs. destruct Hs as [x [I S]]. intros Z.
    assert (In x (dropna col)) by (apply filter_In; destruct x; try discriminate; auto).
    rewrite Z in H0. destruct H0. }
  assert (B : infers_boolean (dropna col) = false).
  { unfold infers_boolean. rewrite (forallb_disjoint is_strlike is_bool_cell); auto.
    - destruct (dropna col); reflexivity.
    - kind_false. }
  destruct (dropna col) as [|c r] eqn:E; [congruence|]. rewrite <- E in *.
  unfold infer_scalar_branch. rewrite D, T, B. simpl.
  destruct (above_thresh (min_count (dropna col))); simpl; auto.
  destruct (above_thresh (max_min_count (dropna col))); reflexivity.
Qed.

Definition is_numlist_cell (c : cell) : bool :=
  match c with LList l => forallb is_num_elem l | _ => false end.
Definition is_strlist_cell (c : cell) : bool :=
  match c with LList l => forallb is_str_elem l | _ => false end.
Definition has_str_elem (c : cell) : bool :=
  match c with LList l => existsb is_str_elem l | _ => false end.

(* all lists as long as the first one, all elements finite floats *)
Definition embedding_ok (ser : list cell) : bool := forallb (list_emb_ok (head_len ser)) ser.

Lemma table_numlist col :
  forallb (fun c => is_numlist_cell c || is_missing c) col = true ->
  dropna col <> [] ->
  infer_series_stype col =
  Inferred (Some (if embedding_ok (dropna col) then st_embedding else st_sequence_numerical)).
Proof.
  intros H Hne. apply forallb_dropna in H.
  rewrite infer_all_lists; auto.
  2:{ apply (forallb_weaken is_numlist_cell); auto. kind_false. }
  unfold list_branch_result, embedding_ok.
  assert (N : forallb list_allnum (dropna col) = true).
  { apply (forallb_weaken is_numlist_cell); auto. kind_false. }
  rewrite N, (emb_flag_eq_ok _ _ N). unfold list_result.
  destruct (forallb (list_emb_ok (head_len (dropna col))) (dropna col)); reflexivity.
Qed.

(* embedding_ok, read without reference to the first row *)
Lemma embedding_ok_iff ser :
  forallb is_list ser = true ->
  embedding_ok ser = true <->
  (forall l l', In (LList l) ser -> In (LList l') ser -> List.length l = List.length l') /\
  (forall l, In (LList l) ser -> forallb is_float_elem l = true /\ forallb is_finite_elem l = true).
Proof.
  intros HL. unfold embedding_ok. split.
  - intros H. split.
    + intros l l' I I'. rewrite (emb_ok_len _ _ _ H I), (emb_ok_len _ _ _ H I'). reflexivity.
    + intros l I. rewrite forallb_forall in H. specialize (H _ I). simpl in H.
      apply andb_true_iff in H. destruct H as [H F]. apply andb_true_iff in H. tauto.
  - intros [HLen HF]. apply forallb_forall. intros c I.
    destruct c; simpl; auto.
    destruct (HF _ I) as [-> ->]. rewrite !andb_true_r.
    destruct ser as [|c0 r]; [destruct I|]. simpl in HL. apply andb_true_iff in HL.
    destruct c0; try (destruct HL; discriminate). simpl. apply Nat.eqb_eq.
    apply HLen; simpl; auto.
Qed.

Lemma table_strlist col :
  forallb (fun c => is_strlist_cell c || is_missing c) col = true ->
  existsb has_str_elem col = true ->           (* not only empty lists *)
  infer_series_stype col = Inferred (Some st_multicategorical).
Proof.
  intros H Hs. apply forallb_dropna in H.
  apply existsb_exists in Hs. destruct Hs as [x [I S]].
  assert (Ix : In x (dropna col)) by (apply filter_In; destruct x; try discriminate; auto).
  rewrite infer_all_lists.
  2:{ apply (forallb_weaken is_strlist_cell); auto. kind_false. }
  2:{ intros Z. rewrite Z in Ix. destruct Ix. }
  unfold list_branch_result.
  assert (N : forallb list_allnum (dropna col) = false).
  { destruct (forallb list_allnum (dropna col)) eqn:Z; auto.
    rewrite forallb_forall in Z. specialize (Z _ Ix). destruct x; try discriminate.
    simpl in Z, S. apply existsb_exists in S. destruct S as [e [Ie Se]].
    rewrite forallb_forall in Z. specialize (Z _ Ie). destruct e; discriminate. }
  assert (A : forallb list_allstr (dropna col) = true).
  { apply (forallb_weaken is_strlist_cell); auto. kind_false. }
  rewrite N, A. reflexivity.
Qed.

(* the threshold: multiplicity 5 is "repeated", 4 is not *)
Lemma threshold_4_vs_5 : above_thresh 5 = true /\ above_thresh 4 = false.
Proof. split; vm_compute; reflexivity. Qed.

Lemma above_thresh_mono a b : a <= b -> above_thresh a = true -> above_thresh b = true.
Proof. unfold above_thresh. intros L H. apply Z.gtb_lt in H. apply Z.gtb_lt. lia. Qed.

(* the code's deliberate rule for float columns whose values are all integral: with a
   missing cell they are pandas' image of an integer column and are judged by
   multiplicity, without one they are numerical -- so for THIS family the result is
   not a function of the non-missing values alone *)
Lemma table_integral_floats col :
  forallb (fun c => is_float_cell c || is_missing c) col = true ->
  dropna col <> [] ->
  forallb is_integral (dropna col) = true ->
  infer_series_stype col =
  Inferred (Some (if has_nan col && above_thresh (min_count (dropna col))
                  then st_categorical else st_numerical)).
Proof.
  intros H Hne I. apply forallb_dropna in H.
  rewrite infer_no_list_head by (apply (head_not_list is_float_cell); auto; kind_false).
  assert (D : dtype_of col = DFloat).
  { unfold dtype_of.
    rewrite (forallb_disjoint is_float_cell is_strlike), (forallb_disjoint is_float_cell is_bool_cell),
            (forallb_disjoint is_float_cell is_int_cell), (forallb_weaken is_float_cell is_num_cell);
      auto; kind_false. }
  destruct (dropna col) as [|c r] eqn:E; [congruence|]. rewrite <- E in *.
  unfold infer_scalar_branch. rewrite D, I. simpl.
  destruct (has_nan col); simpl; [|reflexivity].
  destruct (above_thresh (min_count (dropna col))); reflexivity.
Qed.

(* integer and boolean columns: the result is a function of the non-missing values *)
Lemma column_of_dropna (P : cell -> bool) col col' :
  dropna col' = dropna col ->
  forallb (fun c => P c || is_missing c) col = true ->
  forallb (fun c => P c || is_missing c) col' = true.
Proof.
  intros E H. apply forallb_forall. intros c Hc.
  destruct (is_missing c) eqn:M; [now rewrite orb_true_r|].
  assert (I : In c (dropna col')) by (apply filter_In; rewrite M; auto).
  rewrite E in I. apply filter_In in I. destruct I as [I _].
  rewrite forallb_forall in H. specialize (H c I). now rewrite M in H.
Qed.

Lemma infer_empty col : dropna col = [] -> infer_series_stype col = Inferred None.
Proof. intros E. unfold infer_series_stype. now rewrite E. Qed.

Theorem int_bool_missing_invariant col col' :
  (forallb (fun c => is_int_cell c || is_missing c) col = true \/
   forallb (fun c => is_bool_cell c || is_missing c) col = true) ->
  dropna col' = dropna col ->
  infer_series_stype col' = infer_series_stype col.
Proof.
  intros H E.
  destruct (dropna col) as [|c r] eqn:D.
  { now rewrite (infer_empty col D), (infer_empty col' E). }
  assert (N : dropna col <> []) by (rewrite D; discriminate).
  assert (N' : dropna col' <> []) by (rewrite E; discriminate).
  destruct H as [H|H]; pose proof (column_of_dropna _ col col' (eq_trans E (eq_sym D)) H) as H'.
  - rewrite (table_int col H N), (table_int col' H' N'). now rewrite E, D.
  - now rewrite (table_bool col H N), (table_bool col' H' N').
Qed.

(* ------------------------------------------------------------------ the token test in plain terms *)
(* FINITE: the generated threshold is not negative *)
Lemma above_thresh_0 : above_thresh 0 = false.
Proof. vm_compute. reflexivity. Qed.

Lemma above_thresh_max a b : above_thresh (Nat.max a b) = above_thresh a || above_thresh b.
Proof.
  destruct (Nat.max_spec a b) as [[L ->]|[L ->]].
  - destruct (above_thresh a) eqn:A; simpl; auto. apply (above_thresh_mono a b); auto. lia.
  - destruct (above_thresh b) eqn:B; simpl; [|now rewrite orb_false_r].
    rewrite (above_thresh_mono b a); auto.
Qed.

Lemma above_list_max l : above_thresh (list_max l) = existsb above_thresh l.
Proof.
  induction l as [|x r IH]; simpl; [apply above_thresh_0|]. now rewrite above_thresh_max, IH.
Qed.

Lemma above_list_min m : m <> [] -> above_thresh (list_min m) = forallb above_thresh m.
Proof.
  intros Hne. destruct (list_min_spec m Hne) as [Hin Hle].
  destruct (forallb above_thresh m) eqn:F.
  - rewrite forallb_forall in F. apply F, Hin.
  - destruct (above_thresh (list_min m)) eqn:A; auto.
    rewrite <- F. symmetry. apply forallb_forall. intros y Hy.
    apply (above_thresh_mono (list_min m) y); auto.
Qed.

Lemma forallb_map_comp {A B} (f : B -> bool) (g : A -> B) l : forallb f (map g l) = forallb (fun x => f (g x)) l.
Proof. induction l; simpl; auto. now rewrite IHl. Qed.

Lemma forallb_ext_in {A} (f g : A -> bool) l : (forall x, In x l -> f x = g x) -> forallb f l = forallb g l.
Proof.
  induction l as [|x r IH]; simpl; auto. intros H. rewrite (H x), IH; auto.
Qed.

Lemma above_min_count_by {A} (eqb : A -> A -> bool) l :
  above_thresh (min_count_by eqb l) =
  match l with [] => false | _ => forallb (fun x => above_thresh (count_by eqb x l)) l end.
Proof.
  unfold min_count_by. destruct l as [|a r]; [apply above_thresh_0|].
  rewrite above_list_min by discriminate. apply forallb_map_comp.
Qed.

Lemma count_by_app {A} (eqb : A -> A -> bool) x l1 l2 :
  count_by eqb x (l1 ++ l2) = count_by eqb x l1 + count_by eqb x l2.
Proof. unfold count_by. now rewrite filter_app, app_length. Qed.

Lemma count_by_NoDup tok l :
  NoDup l -> count_by String.eqb tok l = if existsb (String.eqb tok) l then 1 else 0.
Proof.
  induction l as [|a r IH]; intros ND; [reflexivity|]. inversion ND; subst.
  unfold count_by in *. simpl. destruct (String.eqb tok a) eqn:E; simpl.
  - apply String.eqb_eq in E. subst a. rewrite (IH H2).
    destruct (existsb (String.eqb tok) r) eqn:X; auto.
    apply existsb_exists in X. destruct X as [y [Iy Ey]]. apply String.eqb_eq in Ey. subst y. contradiction.
  - apply IH, H2.
Qed.

Lemma row_tokens_NoDup c row : NoDup (row_tokens c row).
Proof. unfold row_tokens. destruct (String.eqb (strip row) EmptyString); [constructor | apply NoDup_nodup]. Qed.

(* the multiplicity of a token among all exploded tokens = the number of rows containing it *)
Lemma token_count_is_row_count c tok ser :
  count_by String.eqb tok (flat_map (fun x => row_tokens c (cell_string x)) ser) = rows_with_token c tok ser.
Proof.
  unfold rows_with_token. induction ser as [|x r IH]; [reflexivity|].
  simpl. rewrite count_by_app, IH, (count_by_NoDup tok _ (row_tokens_NoDup c (cell_string x))).
  destruct (existsb (String.eqb tok) (row_tokens c (cell_string x))); reflexivity.
Qed.

Lemma above_sep_min_count c ser :
  above_thresh (min_count_by String.eqb (flat_map (fun x => row_tokens c (cell_string x)) ser)) =
  tokens_repeated c ser.
Proof.
  rewrite above_min_count_by. unfold tokens_repeated.
  destruct (flat_map (fun x => row_tokens c (cell_string x)) ser) as [|t ts] eqn:E; auto.
  rewrite <- E. apply forallb_ext_in. intros tok _. now rewrite token_count_is_row_count.
Qed.

Theorem multicat_test_is_spec ser : above_thresh (max_min_count ser) = multicat_spec ser.
Proof.
  unfold max_min_count, multicat_spec. rewrite above_list_max.
  induction possible_seps as [|sep r IH]; simpl; auto.
  rewrite existsb_app, IH. f_equal. unfold sep_min_count.
  destruct (sep_char sep) as [c|]; simpl; auto.
  now rewrite orb_false_r, above_sep_min_count.
Qed.

(* ... and the specification in words *)
Lemma multicat_spec_iff ser :
  multicat_spec ser = true <->
  exists sep c, In sep possible_seps /\ sep_char sep = Some c /\
    (exists tok, In tok (flat_map (fun x => row_tokens c (cell_string x)) ser)) /\
    (forall tok, In tok (flat_map (fun x => row_tokens c (cell_string x)) ser) ->
                 above_thresh (rows_with_token c tok ser) = true).
Proof.
  unfold multicat_spec. rewrite existsb_exists. split.
  - intros [sep [I H]]. destruct (sep_char sep) as [c|] eqn:E; [|discriminate].
    exists sep, c. repeat split; auto; unfold tokens_repeated in H;
      destruct (flat_map (fun x => row_tokens c (cell_string x)) ser) as [|t ts] eqn:F; try discriminate.
    + exists t. simpl. auto.
    + intros tok It. rewrite forallb_forall in H. auto.
  - intros [sep [c [I [E [[t It] H]]]]]. exists sep. split; auto. rewrite E. unfold tokens_repeated.
    destruct (flat_map (fun x => row_tokens c (cell_string x)) ser) as [|t0 ts] eqn:F; [destruct It|].
    apply forallb_forall. exact H.
Qed.

(* ------------------------------------------------------------------ frame level *)
Definition typed_columns (df : list (string * list cell)) : list (string * stype) :=
  flat_map (fun nc => match infer_series_stype (snd nc) with
                      | Inferred (Some s) => [(fst nc, s)]
                      | _ => []
                      end) df.

Lemma infer_df_filter_map df : infer_df_stype df = Some (typed_columns df).
Proof.
  induction df as [|[n c] r IH]; simpl; auto.
  pose proof (infer_no_raise c) as Hc. rewrite IH.
  destruct (infer_series_stype c) as [[s|]|]; simpl; auto; congruence.
Qed.

(* ------------------------------------------------------------------ corollaries stated in Props/C18.v *)
Lemma table_string_spec col :
  forallb (fun c => is_strlike c || is_missing c) col = true ->
  existsb is_str_cell col = true ->
  infer_series_stype col = Inferred (Some (string_table_spec (dropna col))).
Proof.
  intros H S. rewrite (table_string col H S). unfold string_table_spec.
  now rewrite multicat_test_is_spec.
Qed.

Lemma min_count_least ser :
  ser <> [] ->
  (exists x, In x ser /\ min_count ser = count_by cell_eqb x ser) /\
  (forall x, In x ser -> min_count ser <= count_by cell_eqb x ser).
Proof.
  intros H. split.
  - exact (min_count_by_witness cell_eqb ser H).
  - intros x. exact (min_count_by_le cell_eqb ser x).
Qed.

Lemma no_date_cells_robust ser :
  (forall x, In x ser -> is_datestr x = false) -> ser <> [] -> date_robust ser.
Proof.
  intros H Hne. destruct ser as [|x r]; [congruence|].
  exact (non_date_cell_robust (x :: r) x (or_introl eq_refl) (H x (or_introl eq_refl))).
Qed.

(* ------------------------------------------------------------------ magnitude independence of the whole-number rule *)
Definition whole_num (c : cell) : bool := is_num_cell c && is_integral c.

Lemma scale_is_missing k c : is_missing (scale_cell k c) = is_missing c.
Proof. destruct c; reflexivity. Qed.

Lemma dropna_scale k col : dropna (map (scale_cell k) col) = map (scale_cell k) (dropna col).
Proof.
  unfold dropna. induction col as [|c r IH]; simpl; auto.
  rewrite scale_is_missing. destruct (is_missing c); simpl; now rewrite IH.
Qed.

Lemma has_nan_scale k col : has_nan (map (scale_cell k) col) = has_nan col.
Proof.
  unfold has_nan. induction col as [|c r IH]; simpl; auto. now rewrite scale_is_missing, IH.
Qed.

Lemma forallb_map_pres {A} (P : A -> bool) (f : A -> A) l :
  (forall x, P (f x) = P x) -> forallb P (map f l) = forallb P l.
Proof. intros H. induction l as [|x r IH]; simpl; auto. now rewrite H, IH. Qed.

Lemma dtype_of_scale k col : dtype_of (map (scale_cell k) col) = dtype_of col.
Proof.
  unfold dtype_of. rewrite dropna_scale, has_nan_scale.
  rewrite !forallb_map_pres; auto; intros c; destruct c; reflexivity.
Qed.

Lemma rem_mul_0 a k d : Z.rem a (Zpos d) = 0%Z -> Z.rem (a * k) (Zpos d) = 0%Z.
Proof.
  intros H. apply Z.rem_divide; [discriminate|]. apply Z.rem_divide in H; [|discriminate].
  now apply Z.divide_mul_l.
Qed.

Lemma scale_integral k c : is_integral c = true -> is_integral (scale_cell k c) = true.
Proof.
  destruct c; simpl; auto. intros H. apply Z.eqb_eq in H. apply Z.eqb_eq.
  rewrite Pos.mul_1_r. now apply rem_mul_0.
Qed.

Lemma Qeq_bool_scale (p q : Q) (k : Z) :
  k <> 0%Z -> Qeq_bool (p * inject_Z k)%Q (q * inject_Z k)%Q = Qeq_bool p q.
Proof.
  intros Hk.
  assert (NZ : ~ Qeq (inject_Z k) 0%Q) by (unfold Qeq; simpl; lia).
  destruct (Qeq_bool p q) eqn:E.
  - apply Qeq_bool_iff in E. apply Qeq_bool_iff. now rewrite E.
  - destruct (Qeq_bool (p * inject_Z k)%Q (q * inject_Z k)%Q) eqn:F; auto.
    apply Qeq_bool_iff in F. apply Qmult_inj_r in F; auto.
    apply Qeq_bool_iff in F. congruence.
Qed.

Lemma cell_eqb_scale k a b : k <> 0%Z -> cell_eqb (scale_cell k a) (scale_cell k b) = cell_eqb a b.
Proof.
  intros Hk. destruct a, b; simpl; try reflexivity.
  - now apply Qeq_bool_scale.
  - rewrite inject_Z_mult. now apply Qeq_bool_scale.
  - rewrite inject_Z_mult. now apply Qeq_bool_scale.
  - destruct (Z.eqb_spec z z0) as [->|N]; [apply Z.eqb_refl|].
    apply Z.eqb_neq. intros X. apply N. now apply Z.mul_reg_r in X.
Qed.

Lemma count_by_map {A} (eqb : A -> A -> bool) (f : A -> A) x l :
  (forall a b, eqb (f a) (f b) = eqb a b) -> count_by eqb (f x) (map f l) = count_by eqb x l.
Proof.
  intros H. unfold count_by. induction l as [|y r IH]; simpl; auto.
  rewrite H. destruct (eqb x y); simpl; now rewrite IH.
Qed.

Lemma min_count_by_map {A} (eqb : A -> A -> bool) (f : A -> A) l :
  (forall a b, eqb (f a) (f b) = eqb a b) -> min_count_by eqb (map f l) = min_count_by eqb l.
Proof.
  intros H. unfold min_count_by. rewrite map_map. f_equal.
  apply map_ext. intros x. now apply count_by_map.
Qed.

Lemma whole_num_numeric_dtype col :
  forallb (fun c => whole_num c || is_missing c) col = true -> dropna col <> [] ->
  is_numeric_dtype (dtype_of col) = true.
Proof.
  intros H Hne. apply forallb_dropna in H.
  assert (N : forallb is_num_cell (dropna col) = true).
  { apply (forallb_weaken whole_num); auto. intros c X. unfold whole_num in X. apply andb_true_iff in X. tauto. }
  unfold dtype_of.
  rewrite (forallb_disjoint is_num_cell is_strlike), (forallb_disjoint is_num_cell is_bool_cell), N; auto;
    try (intros c; destruct c; simpl; intros; try discriminate; auto).
  destruct (forallb is_int_cell (dropna col)); destruct (has_nan col); reflexivity.
Qed.

(* whole-valued numeric columns: the decision does not depend on the magnitude of the values *)
Theorem infer_scale_invariant k col :
  k <> 0%Z ->
  forallb (fun c => whole_num c || is_missing c) col = true ->
  infer_series_stype (map (scale_cell k) col) = infer_series_stype col.
Proof.
  intros Hk H.
  destruct (dropna col) as [|h t] eqn:E.
  { rewrite (infer_empty col E). apply infer_empty. now rewrite dropna_scale, E. }
  assert (Hne : dropna col <> []) by (rewrite E; discriminate).
  pose proof (whole_num_numeric_dtype col H Hne) as ND.
  pose proof (forallb_dropna _ _ H) as HW.
  assert (HI : forallb is_integral (dropna col) = true).
  { apply (forallb_weaken whole_num); auto. intros c X. unfold whole_num in X. apply andb_true_iff in X. tauto. }
  assert (HL : is_list h = false).
  { rewrite E in HW. simpl in HW. apply andb_true_iff in HW. destruct HW as [X _]. destruct h; auto; discriminate. }
  rewrite (infer_no_list_head col), (infer_no_list_head (map (scale_cell k) col)).
  2:{ rewrite dropna_scale, E. simpl. destruct h; auto; discriminate. }
  2:{ now rewrite E. }
  rewrite dropna_scale, has_nan_scale, dtype_of_scale, E. simpl map. rewrite <- E.
  change (scale_cell k h :: map (scale_cell k) t) with (map (scale_cell k) (h :: t)). rewrite <- E.
  unfold infer_scalar_branch. rewrite ND.
  assert (HI' : forallb is_integral (map (scale_cell k) (dropna col)) = true).
  { rewrite forallb_forall in HI. apply forallb_forall. intros x Hx. apply in_map_iff in Hx.
    destruct Hx as [y [<- Iy]]. apply scale_integral. auto. }
  unfold min_count. rewrite HI, HI', (min_count_by_map cell_eqb (scale_cell k)); auto.
  intros a b. now apply cell_eqb_scale.
Qed.

(* the priorities of the string part of the table: timestamp > repeated strings >
   repeated tokens > free text, for EVERY column of strings (dates, non-dates, mixtures) *)
Theorem string_priority col :
  forallb (fun c => is_strlike c || is_missing c) col = true -> dropna col <> [] ->
  infer_series_stype col = Inferred (Some (string_column_decision (dropna col))).
Proof.
  intros H Hne. apply forallb_dropna in H.
  rewrite infer_no_list_head by (apply (head_not_list is_strlike); auto; kind_false).
  assert (D : dtype_of col = DString) by (unfold dtype_of; now rewrite H).
  assert (B : infers_boolean (dropna col) = false).
  { unfold infers_boolean. rewrite (forallb_disjoint is_strlike is_bool_cell); auto.
    - destruct (dropna col); reflexivity.
    - kind_false. }
  destruct (dropna col) as [|c r] eqn:E; [congruence|]. rewrite <- E in *.
  unfold infer_scalar_branch, string_column_decision, string_table_spec. rewrite D, B. simpl.
  rewrite multicat_test_is_spec.
  destruct (is_timestamp (dropna col)); auto.
  destruct (above_thresh (min_count (dropna col))); simpl; auto.
  destruct (multicat_spec (dropna col)); reflexivity.
Qed.
