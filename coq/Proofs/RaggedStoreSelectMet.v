(* Store-level facts about selections on MultiEmbeddingTensor objects (C05):
   a selection never writes (frame), and - for the placements "same object" and
   "fresh storage" - the returned object reads back as the pure selection result.
   The two VIEW placements (a row window, a column window of a 2-D storage) are
   covered by met_rows_view_reads_back / met_cols_view_reads_back; the placement
   function itself is compared with the library on every run by the C06 store
   programs. *)
From Coq Require Import ZArith List Bool Arith Lia.
From PF Require Import Lib.ListX Lib.PySlice Model.Ragged Model.RaggedSpec Model.RaggedRun Model.RaggedCat
                       Model.RaggedStore.
From PF Require Import Proofs.ListXFacts Proofs.MntProofs Proofs.MetProofs Proofs.RaggedStoreProofs Proofs.RaggedStoreSelect.
Import ListNotations.

Section SelectStoreMet.
  Variable A : Type.
  Notation estore := (list (list (list A))).
  Notation e_read := (e_read A).

  (* a selection never writes: every existing object reads the same, at most one storage is allocated *)
  Theorem met_select_store_frame_proof : forall (st st' : estore) (h r : hmet) (ix : index) (dim : nat),
    e_select A st h ix dim = Some (st', r) ->
    (forall h0, e_buf h0 < length st -> e_read st' h0 = e_read st h0)
    /\ (st' = st \/ exists b, st' = st ++ [b]).
  Proof.
    intros st st' h r ix dim Hs. unfold e_select in Hs.
    destruct (RaggedStore.e_read A st h) as [t|]; cbn [obind] in Hs; [|discriminate].
    destruct (select A _ (met_kernels A) t ix dim) as [res|]; cbn [obind] in Hs; [|discriminate].
    destruct (e_place A t ix dim) as [|a b|a b|].
    - injection Hs as <- <-. split; [reflexivity | left; reflexivity].
    - injection Hs as <- <-. split; [reflexivity | left; reflexivity].
    - injection Hs as <- <-. split; [reflexivity | left; reflexivity].
    - unfold e_new, g_alloc in Hs. injection Hs as <- <-. split.
      + intros h0 Hh0. apply e_read_alloc. exact Hh0.
      + right. eexists. reflexivity.
  Qed.

  Lemma met_ok_of_cells : forall (ws : list nat) (m : cellmat A), rect_w ws m -> met_ok A (met_of_cells ws m).
  Proof.
    intros ws m Hr. unfold met_ok, met_of_cells. cbn [evals t2rows t2w er]. split.
    - apply map_length.
    - apply Forall_forall. intros row Hrow. apply in_map_iff in Hrow. destruct Hrow as [r0 [<- Hin]].
      unfold rect_w in Hr. rewrite Forall_forall in Hr. specialize (Hr r0 Hin).
      rewrite sum_map_length_concat, Hr. reflexivity.
  Qed.

  (* read-back for the placements that are not views *)
  Theorem met_select_store_reads_back_partial_proof :
    forall (st st' : estore) (h r : hmet) (ws : list nat) (m : cellmat A) (ix : index) (dim : nat),
    dim < 2 -> rect_w ws m -> e_read st h = Some (met_of_cells ws m) ->
    e_select A st h ix dim = Some (st', r) ->
    (e_place A (met_of_cells ws m) ix dim = ESame \/ e_place A (met_of_cells ws m) ix dim = EFresh) ->
    e_read st' r = select A _ (met_kernels A) (met_of_cells ws m) ix dim.
  Proof.
    intros st st' h r ws m ix dim Hd Hr Hread Hs Hpl.
    unfold e_select in Hs. rewrite Hread in Hs. cbn [obind] in Hs.
    pose proof (met_select_refines_proof A ws m ix dim Hr Hd) as Hsel.
    destruct (select A _ (met_kernels A) (met_of_cells ws m) ix dim) as [res|] eqn:Esel; cbn [obind] in Hs; [|discriminate].
    destruct (py_positions (if dim =? 0 then length m else length ws) ix) as [pos|] eqn:Epos; [|discriminate].
    injection Hsel as Hres.
    destruct Hpl as [Hpl|Hpl]; rewrite Hpl in Hs.
    - (* the same object: the selection is the identity on this container *)
      injection Hs as <- <-. rewrite Hread. f_equal.
      destruct ix as [i|sa sb ss|l|ra rb rs|l|mk]; cbn [e_place] in Hpl.
      + destruct (norm_index _ i); [destruct (dim =? 0)|]; discriminate.
      + unfold select, slice_ in Esel.
        assert (Hn : size A _ (met_kernels A) (met_of_cells ws m) dim =
                     (if dim =? 0 then er (met_of_cells ws m) else ec (met_of_cells ws m)))
          by (unfold size; destruct (dim =? 0); reflexivity).
        rewrite Hn in Esel.
        set (n := if dim =? 0 then er (met_of_cells ws m) else ec (met_of_cells ws m)) in *.
        set (stp := match ss with Some v => v | None => 1%Z end) in *.
        destruct (1 <? stp)%Z eqn:E1; [discriminate|].
        destruct (stp <=? 0)%Z eqn:E0; [discriminate|].
        destruct (slice_indices n sa sb) as [lo hi] eqn:Esl.
        destruct ((lo =? 0) && (Z.of_nat n <=? Z.of_nat lo + (Z.of_nat hi - Z.of_nat lo))%Z) eqn:Ec; [|
          destruct (Z.of_nat hi - Z.of_nat lo <=? 0)%Z; [discriminate | destruct (dim =? 0); discriminate]].
        unfold narrow in Esel. rewrite Hn in Esel. fold n in Esel. rewrite Ec in Esel.
        injection Esel as <-. reflexivity.
      + discriminate.
      + discriminate.
      + discriminate.
      + discriminate.
    - (* a fresh storage holding the (canonical, hence well-formed) result *)
      assert (Hok : met_ok A res).
      { rewrite Hres. apply met_ok_of_cells.
        exact (pick_rect_w_proof A ws m ix dim pos Hr Hd Epos). }
      pose proof (e_new_spec A st res Hok) as Hn.
      destruct (e_new A st res) as [st2 r2] eqn:En. injection Hs as <- <-.
      destruct Hn as [_ [_ H3]]. exact H3.
  Qed.
End SelectStoreMet.

(* ---------------------------------------------------------------------- *)
Section MetViewsA.
  Variable A : Type.
  Notation estore := (list (list (list A))).

  (* what a successful read says about the handle and its storage *)
  Lemma e_read_inv : forall (st : estore) h t, e_read A st h = Some t ->
    exists buf, nth_error st (e_buf h) = Some buf /\ e_r0 h + e_nr h <= length buf
      /\ (forall row, In row (tslice buf (e_r0 h) (e_r0 h + e_nr h)) -> e_c0 h + e_w h <= length row)
      /\ t = MkMet (e_nr h) (e_nc h)
                   (MkT2 (map (fun row => tslice row (e_c0 h) (e_c0 h + e_w h))
                              (tslice buf (e_r0 h) (e_r0 h + e_nr h))) (e_w h)) (e_offs h).
  Proof.
    intros st h t E. unfold e_read, g_read in E.
    destruct (nth_error st (e_buf h)) as [buf|] eqn:Eb; cbn [obind] in E; [|discriminate].
    unfold e_view in E.
    destruct ((e_r0 h + e_nr h <=? length buf) && _) eqn:Ec; [|discriminate].
    apply andb_true_iff in Ec. destruct Ec as [E1 E2]. apply Nat.leb_le in E1.
    injection E as <-. exists buf. repeat split; auto.
    intros row Hrow. rewrite forallb_forall in E2. apply Nat.leb_le. apply E2. exact Hrow.
  Qed.

  (* a row window [a, b) of an object is again an object of the same storage *)
  Lemma row_window_read : forall (st : estore) h buf a b offs' nc',
    nth_error st (e_buf h) = Some buf -> e_r0 h + e_nr h <= length buf ->
    (forall row, In row (tslice buf (e_r0 h) (e_r0 h + e_nr h)) -> e_c0 h + e_w h <= length row) ->
    a <= b -> b <= e_nr h ->
    e_read A st (MkHmet (b - a) nc' offs' (e_buf h) (e_r0 h + a) (e_c0 h) (e_w h)) =
    Some (MkMet (b - a) nc'
            (MkT2 (tslice (map (fun row => tslice row (e_c0 h) (e_c0 h + e_w h))
                               (tslice buf (e_r0 h) (e_r0 h + e_nr h))) a b) (e_w h)) offs').
  Proof.
    intros st h buf a b offs' nc' Eb Hlen Hrows Hab Hb.
    unfold e_read, g_read. cbn [e_buf]. rewrite Eb. cbn [obind]. unfold e_view.
    cbn [e_r0 e_nr e_c0 e_w e_nc e_offs].
    replace (e_r0 h + a + (b - a)) with (e_r0 h + b) by lia.
    assert (Hsub : tslice buf (e_r0 h + a) (e_r0 h + b) = tslice (tslice buf (e_r0 h) (e_r0 h + e_nr h)) a b)
      by (rewrite tslice_tslice by lia; reflexivity).
    replace (e_r0 h + b <=? length buf) with true by (symmetry; apply Nat.leb_le; lia).
    rewrite (proj2 (forallb_forall _ _)).
    2: { intros row Hrow. apply Nat.leb_le. apply Hrows. rewrite Hsub in Hrow. eapply In_tslice. exact Hrow. }
    cbn [andb]. rewrite Hsub, tslice_map. reflexivity.
  Qed.
End MetViewsA.

Section MetViewsB.
  Variable A : Type.
  Notation estore := (list (list (list A))).

  Lemma mk_met_inv : forall r c v o res, mk_met A r c v o = Some res -> res = MkMet r c v o.
  Proof.
    intros r c v o res H. unfold mk_met in H. destruct o as [|o0 o']; [discriminate|].
    destruct ((o0 =? 0) && (length (o0 :: o') =? c + 1)); [|discriminate]. injection H as <-. reflexivity.
  Qed.

  (* read-back of the ROW-window view placement *)
  Lemma met_rows_view_reads_back : forall (st : estore) (h : hmet) (t res : met A) (ix : index) a b,
    e_read A st h = Some t ->
    select A _ (met_kernels A) t ix 0 = Some res ->
    e_place A t ix 0 = ERows a b ->
    e_read A st (MkHmet (er res) (ec res) (eoffs res) (e_buf h) (e_r0 h + a) (e_c0 h) (e_w h)) = Some res.
  Proof.
    intros st h t res ix a b Hread Hsel Hpl.
    destruct (e_read_inv A st h t Hread) as [buf [Eb [Hlen [Hrows Ht]]]].
    assert (Hnr : er t = e_nr h) by (rewrite Ht; reflexivity).
    destruct ix as [i|sa sb ss|l|ra rb rs|l|mk]; cbn [e_place Nat.eqb] in Hpl; try discriminate.
    - (* integer row *)
      destruct (norm_index (er t) i) as [k|] eqn:Ek; [|discriminate]. injection Hpl as <- <-.
      pose proof (norm_index_lt _ _ _ Ek) as Hk.
      unfold select, size in Hsel. cbn [Nat.eqb met_kernels k_rows k_single_index_select] in Hsel.
      rewrite Ek in Hsel. cbn [obind] in Hsel.
      unfold met_single_index_select in Hsel. cbn [Nat.eqb] in Hsel.
      destruct (tget (t2rows (evals t)) k) as [row|] eqn:Erow; cbn [obind] in Hsel; [|discriminate].
      apply mk_met_inv in Hsel. subst res. cbn [er ec eoffs].
      replace 1 with (k + 1 - k) at 1 by lia.
      rewrite (row_window_read A st h buf k (k + 1) (eoffs t) (ec t) Eb Hlen Hrows) by lia.
      replace (k + 1 - k) with 1 by lia. f_equal. f_equal.
      rewrite Ht in Erow. cbn [evals t2rows] in Erow. unfold tget in Erow.
      assert (Hkl : k < length (map (fun row0 => tslice row0 (e_c0 h) (e_c0 h + e_w h))
                                    (tslice buf (e_r0 h) (e_r0 h + e_nr h))))
        by (apply nth_error_Some; congruence).
      replace (k + 1) with (S k) by lia.
      rewrite (tslice_one _ k row Hkl).
      rewrite (nth_error_nth _ _ row Erow).
      f_equal.
      (* length row = w *)
      apply nth_error_In in Erow. apply in_map_iff in Erow. destruct Erow as [x [<- Hx]].
      rewrite tslice_length by (apply Hrows; exact Hx). lia.
    - (* contiguous row slice *)
      set (stp := match ss with Some v => v | None => 1%Z end) in *.
      destruct (1 <? stp)%Z eqn:E1; [discriminate|].
      destruct (slice_indices (er t) sa sb) as [lo hi] eqn:Esl.
      destruct ((lo =? 0) && (Z.of_nat (er t) <=? Z.of_nat lo + (Z.of_nat hi - Z.of_nat lo))%Z) eqn:Ec; [discriminate|].
      destruct (Z.of_nat hi - Z.of_nat lo <=? 0)%Z eqn:Ee; [discriminate|]. injection Hpl as <- <-.
      apply Z.leb_gt in Ee.
      assert (Hhi : hi <= er t).
      { unfold slice_indices in Esl. injection Esl as _ <-. apply clamp_bound_le. lia. }
      unfold select, slice_, size in Hsel. cbn [Nat.eqb met_kernels k_rows] in Hsel. fold stp in Hsel.
      destruct (stp <=? 0)%Z; [discriminate|]. rewrite Esl, E1 in Hsel.
      unfold narrow, size in Hsel. cbn [Nat.eqb met_kernels k_rows k_row_narrow] in Hsel. rewrite Ec in Hsel.
      replace (Z.of_nat hi - Z.of_nat lo <=? 0)%Z with false in Hsel by (symmetry; apply Z.leb_gt; lia).
      unfold met_row_narrow in Hsel. apply mk_met_inv in Hsel. subst res. cbn [er ec eoffs].
      replace (Z.to_nat (Z.of_nat hi - Z.of_nat lo)) with (hi - lo) by lia.
      rewrite (row_window_read A st h buf lo hi (eoffs t) (ec t) Eb Hlen Hrows) by lia.
      f_equal. unfold t2_row_slice. replace (lo + (hi - lo)) with hi by lia.
      rewrite Ht. reflexivity.
  Qed.
End MetViewsB.

Section MetViewsC.
  Variable A : Type.
  Notation estore := (list (list (list A))).

  Lemma col_window_read : forall (st : estore) h buf a b offs' nc',
    nth_error st (e_buf h) = Some buf -> e_r0 h + e_nr h <= length buf ->
    (forall row, In row (tslice buf (e_r0 h) (e_r0 h + e_nr h)) -> e_c0 h + e_w h <= length row) ->
    a <= b -> b <= e_w h ->
    e_read A st (MkHmet (e_nr h) nc' offs' (e_buf h) (e_r0 h) (e_c0 h + a) (b - a)) =
    Some (MkMet (e_nr h) nc'
            (MkT2 (map (fun row => tslice row a b)
                       (map (fun row => tslice row (e_c0 h) (e_c0 h + e_w h))
                            (tslice buf (e_r0 h) (e_r0 h + e_nr h)))) (b - a)) offs').
  Proof.
    intros st h buf a b offs' nc' Eb Hlen Hrows Hab Hb.
    unfold e_read, g_read. cbn [e_buf]. rewrite Eb. cbn [obind]. unfold e_view.
    cbn [e_r0 e_nr e_c0 e_w e_nc e_offs].
    replace (e_r0 h + e_nr h <=? length buf) with true by (symmetry; apply Nat.leb_le; lia).
    rewrite (proj2 (forallb_forall _ _)).
    2: { intros row Hrow. apply Nat.leb_le. specialize (Hrows row Hrow). lia. }
    cbn [andb]. f_equal. f_equal. f_equal. rewrite map_map. apply map_ext_in. intros row Hrow.
    rewrite tslice_tslice by lia. f_equal. lia.
  Qed.

  (* read-back of the COLUMN-window view placement, for a source whose offsets are valid *)
  Lemma met_cols_view_reads_back : forall (st : estore) (h : hmet) (t res : met A) (ix : index) a b,
    e_read A st h = Some t ->
    sorted (eoffs t) -> last (eoffs t) 0 = t2w (evals t) ->
    select A _ (met_kernels A) t ix 1 = Some res ->
    e_place A t ix 1 = ECols a b ->
    e_read A st (MkHmet (er res) (ec res) (eoffs res) (e_buf h) (e_r0 h) (e_c0 h + a) (b - a)) = Some res.
  Proof.
    intros st h t res ix a b Hread Hsorted Hlast Hsel Hpl.
    destruct (e_read_inv A st h t Hread) as [buf [Eb [Hlen [Hrows Ht]]]].
    assert (Hw : t2w (evals t) = e_w h) by (rewrite Ht; reflexivity).
    assert (Hnr : er t = e_nr h) by (rewrite Ht; reflexivity).
    (* both placements are a window [o_s, o_e) of offsets lo <= hi that exist *)
    assert (Hwin : forall lo hi o_s o_e, lo <= hi ->
              tget (eoffs t) lo = Some o_s -> tget (eoffs t) hi = Some o_e ->
              forall offs' nc',
              e_read A st (MkHmet (er t) nc' offs' (e_buf h) (e_r0 h)
                                  (e_c0 h + nth lo (eoffs t) 0) (nth hi (eoffs t) 0 - nth lo (eoffs t) 0))
              = Some (MkMet (er t) nc' (t2_col_slice A (evals t) o_s o_e) offs')).
    { intros lo hi o_s o_e Hlh Es Ee offs' nc'. unfold tget in Es, Ee.
      assert (Hhi : hi < length (eoffs t)) by (apply nth_error_Some; congruence).
      rewrite (nth_error_nth _ _ 0 Es), (nth_error_nth _ _ 0 Ee).
      assert (Hle : o_s <= o_e).
      { rewrite <- (nth_error_nth _ _ 0 Es), <- (nth_error_nth _ _ 0 Ee).
        apply sorted_nth_mono; [exact Hsorted | exact Hlh | exact Hhi]. }
      assert (Hew : o_e <= e_w h).
      { rewrite <- Hw, <- Hlast, <- (nth_error_nth _ _ 0 Ee). apply sorted_nth_le_last; assumption. }
      rewrite Hnr.
      rewrite (col_window_read st h buf o_s o_e offs' nc' Eb Hlen Hrows Hle Hew).
      f_equal. f_equal. unfold t2_col_slice. rewrite Ht. cbn [evals t2rows t2w].
      f_equal. lia. }
    destruct ix as [i|sa sb ss|l|ra rb rs|l|mk]; cbn [e_place Nat.eqb] in Hpl; try discriminate.
    - (* integer column *)
      destruct (norm_index (ec t) i) as [k|] eqn:Ek; [|discriminate]. injection Hpl as <- <-.
      unfold select, size in Hsel. cbn [Nat.eqb met_kernels k_cols k_single_index_select] in Hsel.
      rewrite Ek in Hsel. cbn [obind] in Hsel.
      unfold met_single_index_select in Hsel. cbn [Nat.eqb] in Hsel.
      destruct (tget (eoffs t) k) as [o_s|] eqn:Es; cbn [obind] in Hsel; [|discriminate].
      destruct (tget (eoffs t) (k + 1)) as [o_e|] eqn:Ee; cbn [obind] in Hsel; [|discriminate].
      destruct (tget (eoffs t) 0) as [o_0|] eqn:E0; cbn [obind] in Hsel; [|discriminate].
      apply mk_met_inv in Hsel. subst res. cbn [er ec eoffs].
      apply (Hwin k (k + 1) o_s o_e); [lia | exact Es | exact Ee].
    - (* contiguous column slice *)
      set (stp := match ss with Some v => v | None => 1%Z end) in *.
      destruct (1 <? stp)%Z eqn:E1; [discriminate|].
      destruct (slice_indices (ec t) sa sb) as [lo hi] eqn:Esl.
      destruct ((lo =? 0) && (Z.of_nat (ec t) <=? Z.of_nat lo + (Z.of_nat hi - Z.of_nat lo))%Z) eqn:Ec; [discriminate|].
      destruct (Z.of_nat hi - Z.of_nat lo <=? 0)%Z eqn:Ee; [discriminate|]. injection Hpl as <- <-.
      apply Z.leb_gt in Ee.
      unfold select, slice_, size in Hsel. cbn [Nat.eqb met_kernels k_cols] in Hsel. fold stp in Hsel.
      destruct (stp <=? 0)%Z; [discriminate|]. rewrite Esl, E1 in Hsel.
      unfold narrow, size in Hsel. cbn [Nat.eqb met_kernels k_cols k_col_narrow] in Hsel. rewrite Ec in Hsel.
      replace (Z.of_nat hi - Z.of_nat lo <=? 0)%Z with false in Hsel by (symmetry; apply Z.leb_gt; lia).
      unfold met_col_narrow in Hsel.
      replace (lo + Z.to_nat (Z.of_nat hi - Z.of_nat lo)) with hi in Hsel by lia.
      destruct (tget (eoffs t) lo) as [o_s|] eqn:Es; cbn [obind] in Hsel; [|discriminate].
      destruct (tget (eoffs t) hi) as [o_e|] eqn:Eo; cbn [obind] in Hsel; [|discriminate].
      apply mk_met_inv in Hsel. subst res. cbn [er ec eoffs].
      apply (Hwin lo hi o_s o_e); [lia | exact Es | exact Eo].
  Qed.
End MetViewsC.

Section SelectStoreMetFull.
  Variable A : Type.
  Notation estore := (list (list (list A))).

  Lemma sorted_offs_of_ws : forall ws : list nat, sorted (0 :: cumsum ws).
  Proof. intros ws. unfold cumsum. apply sorted_cumsum. Qed.

  (* full store-level soundness for MultiEmbeddingTensor selections *)
  Theorem met_select_store_sound_proof :
    forall (st st' : estore) (h r : hmet) (ws : list nat) (m : cellmat A) (ix : index) (dim : nat),
    dim < 2 -> rect_w ws m -> e_read A st h = Some (met_of_cells ws m) ->
    e_select A st h ix dim = Some (st', r) ->
    e_read A st' r = select A _ (met_kernels A) (met_of_cells ws m) ix dim
    /\ (forall h0, e_buf h0 < length st -> e_read A st' h0 = e_read A st h0)
    /\ (st' = st \/ exists b, st' = st ++ [b]).
  Proof.
    intros st st' h r ws m ix dim Hd Hr Hread Hs.
    destruct (met_select_store_frame_proof A st st' h r ix dim Hs) as [Hframe Halloc].
    split; [|split; assumption].
    destruct (e_place A (met_of_cells ws m) ix dim) as [|a b|a b|] eqn:Epl.
    - apply (met_select_store_reads_back_partial_proof A st st' h r ws m ix dim Hd Hr Hread Hs). left. exact Epl.
    - (* row window: dim = 0 *)
      assert (Hdim : dim = 0).
      { destruct dim as [|[|d]]; [reflexivity | | lia].
        destruct ix as [i|sa sb ss|l|ra rb rs|l|mk]; cbn [e_place Nat.eqb] in Epl; try discriminate.
        - destruct (norm_index _ i); discriminate.
        - destruct (1 <? match ss with Some v => v | None => 1%Z end)%Z; [discriminate|].
          destruct (slice_indices _ sa sb) as [lo hi].
          destruct ((lo =? 0) && _); [discriminate|]. destruct (_ <=? 0)%Z; discriminate. }
      subst dim.
      unfold e_select in Hs. rewrite Hread in Hs. cbn [obind] in Hs.
      destruct (select A _ (met_kernels A) (met_of_cells ws m) ix 0) as [res|] eqn:Esel; cbn [obind] in Hs; [|discriminate].
      rewrite Epl in Hs. injection Hs as <- <-.
      exact (met_rows_view_reads_back A st h (met_of_cells ws m) res ix a b Hread Esel Epl).
    - (* column window: dim = 1 *)
      assert (Hdim : dim = 1).
      { destruct dim as [|[|d]]; [| reflexivity | lia].
        destruct ix as [i|sa sb ss|l|ra rb rs|l|mk]; cbn [e_place Nat.eqb] in Epl; try discriminate.
        - destruct (norm_index _ i); discriminate.
        - destruct (1 <? match ss with Some v => v | None => 1%Z end)%Z; [discriminate|].
          destruct (slice_indices _ sa sb) as [lo hi].
          destruct ((lo =? 0) && _); [discriminate|]. destruct (_ <=? 0)%Z; discriminate. }
      subst dim.
      unfold e_select in Hs. rewrite Hread in Hs. cbn [obind] in Hs.
      destruct (select A _ (met_kernels A) (met_of_cells ws m) ix 1) as [res|] eqn:Esel; cbn [obind] in Hs; [|discriminate].
      rewrite Epl in Hs. injection Hs as <- <-.
      apply (met_cols_view_reads_back A st h (met_of_cells ws m) res ix a b Hread); [| | exact Esel | exact Epl].
      + unfold met_of_cells. cbn [eoffs]. apply sorted_offs_of_ws.
      + unfold met_of_cells. cbn [eoffs evals t2w]. apply offs_last.
    - apply (met_select_store_reads_back_partial_proof A st st' h r ws m ix dim Hd Hr Hread Hs). right. exact Epl.
  Qed.
End SelectStoreMetFull.
