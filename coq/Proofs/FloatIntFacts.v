(* Exact specifications of Python's int(x) / round(x) on the exact value
   +/- m * 2^e of a finite double (Lib/FloatInt.v).  Pure Z arithmetic: no float
   axiom is used; the only float-specific step is FloatOps.Prim2SF, which reads
   (sign, m, e) off a primitive float. *)
From Coq Require Import ZArith Bool Lia PrimFloat FloatOps SpecFloat.
From PF Require Import Lib.FloatInt.
Local Open Scope Z_scope.

Lemma pow2_pos : forall k, 0 <= k -> 0 < 2 ^ k.
Proof. intros. apply Z.pow_pos_nonneg; lia. Qed.

(* int(x): the integer part, toward zero.  For e < 0 the magnitude a satisfies
   a * 2^-e <= m < (a + 1) * 2^-e, i.e. a = floor(m * 2^e). *)
Lemma sf_trunc_spec : forall s m e z,
  sf_trunc (S754_finite s m e) = Some z ->
  let a := Z.abs z in
  z = (if s then - a else a) /\
  (0 <= e -> a = Z.pos m * 2 ^ e) /\
  (e < 0 -> a * 2 ^ (- e) <= Z.pos m < (a + 1) * 2 ^ (- e)).
Proof.
  intros s m e z H.
  assert (Hz : z = if s then - (if 0 <=? e then Z.pos m * 2 ^ e else Z.pos m / 2 ^ (- e))
                   else (if 0 <=? e then Z.pos m * 2 ^ e else Z.pos m / 2 ^ (- e)))
    by (change (Some (if s then - (if 0 <=? e then Z.pos m * 2 ^ e else Z.pos m / 2 ^ (- e))
                   else (if 0 <=? e then Z.pos m * 2 ^ e else Z.pos m / 2 ^ (- e))) = Some z) in H; congruence).
  clear H. subst z.
  destruct (0 <=? e) eqn:E.
  - apply Z.leb_le in E. pose proof (pow2_pos e E).
    assert (0 <= Z.pos m * 2 ^ e) by nia.
    destruct s; cbv zeta; rewrite ?Z.abs_opp, Z.abs_eq by lia; repeat split; intros; lia.
  - apply Z.leb_gt in E. pose proof (pow2_pos (- e) ltac:(lia)) as Hd.
    pose proof (Z.div_mod (Z.pos m) (2 ^ (- e)) ltac:(lia)) as Hdm.
    pose proof (Z.mod_pos_bound (Z.pos m) (2 ^ (- e)) Hd) as Hr.
    assert (0 <= Z.pos m / 2 ^ (- e)) by (apply Z.div_pos; lia).
    destruct s; cbv zeta; rewrite ?Z.abs_opp, Z.abs_eq by lia; repeat split; intros; try lia; nia.
Qed.

(* round(x): a nearest integer (|a * 2^-e - m| <= 2^-e / 2), and on a tie the
   even one. *)
Lemma sf_round_spec : forall s m e z,
  sf_round_half_even (S754_finite s m e) = Some z ->
  let a := Z.abs z in
  z = (if s then - a else a) /\
  (0 <= e -> a = Z.pos m * 2 ^ e) /\
  (e < 0 -> 2 * Z.abs (a * 2 ^ (- e) - Z.pos m) <= 2 ^ (- e) /\
            (2 * Z.abs (a * 2 ^ (- e) - Z.pos m) = 2 ^ (- e) -> Z.even a = true)).
Proof.
  intros s m e z H.
  set (rnd := if 0 <=? e then Z.pos m * 2 ^ e
        else
          let d := 2 ^ (- e) in
          let q := Z.pos m / d in
          let r2 := 2 * (Z.pos m mod d) in
          if r2 <? d then q
          else if d <? r2 then q + 1
          else if Z.even q then q else q + 1).
  assert (Hz : z = if s then - rnd else rnd)
    by (change (Some (if s then - rnd else rnd) = Some z) in H; congruence).
  clear H. subst z. unfold rnd. clear rnd. cbv zeta.
  destruct (0 <=? e) eqn:E.
  - apply Z.leb_le in E. pose proof (pow2_pos e E).
    assert (0 <= Z.pos m * 2 ^ e) by nia.
    destruct s; cbv zeta; rewrite ?Z.abs_opp, Z.abs_eq by lia; repeat split; intros; lia.
  - apply Z.leb_gt in E. pose proof (pow2_pos (- e) ltac:(lia)) as Hd.
    pose proof (Z.div_mod (Z.pos m) (2 ^ (- e)) ltac:(lia)) as Hdm.
    pose proof (Z.mod_pos_bound (Z.pos m) (2 ^ (- e)) Hd) as Hr.
    assert (Hq : 0 <= Z.pos m / 2 ^ (- e)) by (apply Z.div_pos; lia).
    set (d := 2 ^ (- e)) in *. set (q := Z.pos m / d) in *. set (r := Z.pos m mod d) in *.
    assert (Hgoal : forall a, 0 <= a ->
      (2 * Z.abs (a * d - Z.pos m) <= d /\ (2 * Z.abs (a * d - Z.pos m) = d -> Z.even a = true)) ->
      let z := if s then - a else a in
      z = (if s then - Z.abs z else Z.abs z) /\ (0 <= e -> Z.abs z = Z.pos m * 2 ^ e) /\
      (e < 0 -> 2 * Z.abs (Z.abs z * d - Z.pos m) <= d /\
                (2 * Z.abs (Z.abs z * d - Z.pos m) = d -> Z.even (Z.abs z) = true))).
    { intros a Ha Hs. destruct s; cbv zeta; rewrite ?Z.abs_opp, Z.abs_eq by lia; repeat split; intros; try lia;
        apply Hs; auto. }
    destruct (2 * r <? d) eqn:E1; [|destruct (d <? 2 * r) eqn:E2; [|destruct (Z.even q) eqn:E3]].
    + apply Z.ltb_lt in E1. apply Hgoal; auto. split; [|intros]; lia.
    + apply Z.ltb_lt in E2. apply Hgoal; [lia|]. split; [|intros]; lia.
    + apply Z.ltb_ge in E1. apply Z.ltb_ge in E2. apply Hgoal; auto. split; [lia|auto].
    + apply Z.ltb_ge in E1. apply Z.ltb_ge in E2. apply Hgoal; [lia|]. split; [lia|].
      intros _. rewrite Z.even_add, E3. reflexivity.
Qed.

Lemma sf_trunc_defined : forall x, sf_trunc x = None <-> (x = S754_nan \/ exists s, x = S754_infinity s).
Proof.
  intros x. destruct x; simpl; split; intros H; try discriminate; eauto;
    destruct H as [H|[s0 H]]; discriminate.
Qed.

(* the same, for a double whose exact value is (-1)^s * m * 2^e *)
Lemma py_int_finite : forall f s m e z,
  Prim2SF f = S754_finite s m e -> py_int f = Some z ->
  let a := Z.abs z in
  z = (if s then - a else a) /\
  (0 <= e -> a = Z.pos m * 2 ^ e) /\
  (e < 0 -> a * 2 ^ (- e) <= Z.pos m < (a + 1) * 2 ^ (- e)).
Proof. intros f s m e z Hf H. unfold py_int in H. rewrite Hf in H. apply sf_trunc_spec. exact H. Qed.

Lemma py_round_finite : forall f s m e z,
  Prim2SF f = S754_finite s m e -> py_round f = Some z ->
  let a := Z.abs z in
  z = (if s then - a else a) /\
  (0 <= e -> a = Z.pos m * 2 ^ e) /\
  (e < 0 -> 2 * Z.abs (a * 2 ^ (- e) - Z.pos m) <= 2 ^ (- e) /\
            (2 * Z.abs (a * 2 ^ (- e) - Z.pos m) = 2 ^ (- e) -> Z.even a = true)).
Proof. intros f s m e z Hf H. unfold py_round in H. rewrite Hf in H. apply sf_round_spec. exact H. Qed.

Lemma py_int_zero : forall f s, Prim2SF f = S754_zero s -> py_int f = Some 0 /\ py_round f = Some 0.
Proof. intros f s H. unfold py_int, py_round. rewrite H. auto. Qed.

Lemma py_int_nonfinite : forall f, (Prim2SF f = S754_nan \/ exists s, Prim2SF f = S754_infinity s) ->
  py_int f = None /\ py_round f = None.
Proof. intros f [H|[s H]]; unfold py_int, py_round; rewrite H; auto. Qed.
