(* Lemmas about Model/Mixup.v (C19). *)
From Coq Require Import List ZArith QArith Qabs Bool Arith Lia Lqa.
From PF Require Import Lib.ListX Model.Mixup.
Import ListNotations.
Open Scope Q_scope.

(* ------------------------------------------------------------------ lists *)
Lemma nth_error_nil {A} (i : nat) : nth_error (@nil A) i = None.
Proof. destruct i; reflexivity. Qed.

Lemma nth_error_map2 {A B C} (f : A -> B -> C) l1 l2 i :
  nth_error (map2 f l1 l2) i =
  match nth_error l1 i, nth_error l2 i with
  | Some a, Some b => Some (f a b)
  | _, _ => None
  end.
Proof.
  revert l2 i; induction l1 as [|a r IH]; intros [|b r2] [|i]; simpl; try reflexivity.
  - destruct (nth_error r i); reflexivity.
  - apply IH.
Qed.

Lemma nth_error_map3 {A B C D} (f : A -> B -> C -> D) l1 l2 l3 i :
  nth_error (map3 f l1 l2 l3) i =
  match nth_error l1 i, nth_error l2 i, nth_error l3 i with
  | Some a, Some b, Some c => Some (f a b c)
  | _, _, _ => None
  end.
Proof.
  revert l2 l3 i; induction l1 as [|a r IH]; intros l2 l3 i.
  - simpl. rewrite !nth_error_nil. reflexivity.
  - destruct l2 as [|b r2].
    { simpl. rewrite !nth_error_nil. destruct (nth_error (a :: r) i); reflexivity. }
    destruct l3 as [|c r3].
    { simpl. rewrite !nth_error_nil.
      destruct (nth_error (a :: r) i); [destruct (nth_error (b :: r2) i)|]; reflexivity. }
    destruct i; simpl; [reflexivity|apply IH].
Qed.

Lemma nth_error_repeat {A} (a : A) n i :
  nth_error (repeat a n) i = if (i <? n)%nat then Some a else None.
Proof.
  revert i; induction n as [|n IH]; intros [|i]; simpl; try reflexivity.
  rewrite IH. reflexivity.
Qed.

Lemma mapM_nth {A B} (f : A -> option B) l r :
  mapM f l = Some r ->
  forall i, nth_error r i = match nth_error l i with Some a => f a | None => None end.
Proof.
  revert r; induction l as [|a l IH]; simpl; intros r H i.
  - inversion H; subst. destruct i; reflexivity.
  - destruct (f a) eqn:Ha; [|discriminate]. destruct (mapM f l) eqn:Hm; [|discriminate].
    inversion H; subst. destruct i; simpl; [symmetry; exact Ha|]. apply IH. reflexivity.
Qed.

Lemma mapM_length {A B} (f : A -> option B) l r : mapM f l = Some r -> length r = length l.
Proof.
  revert r; induction l as [|a l IH]; simpl; intros r H.
  - inversion H; reflexivity.
  - destruct (f a); [|discriminate]. destruct (mapM f l); [|discriminate].
    inversion H; subst; simpl. f_equal. apply IH. reflexivity.
Qed.

Lemma tgather_nth {A} (l : list A) idx r :
  tgather l idx = Some r ->
  forall i, nth_error r i = match nth_error idx i with Some p => nth_error l p | None => None end.
Proof. unfold tgather, tget. apply mapM_nth. Qed.

Lemma tgather_length {A} (l : list A) idx r : tgather l idx = Some r -> length r = length idx.
Proof. unfold tgather. apply mapM_length. Qed.

Lemma tgather_in_range {A} (l : list A) idx r :
  tgather l idx = Some r -> forall i p, nth_error idx i = Some p -> (p < length l)%nat.
Proof.
  intros H i p Hp. pose proof (tgather_nth _ _ _ H i) as E. rewrite Hp in E.
  assert (Hi : (i < length r)%nat).
  { rewrite (tgather_length _ _ _ H). apply nth_error_Some. congruence. }
  apply nth_error_Some in Hi. apply nth_error_Some. congruence.
Qed.

Lemma mix1_sel m a b : mix1 m a b = if m then a else b.
Proof. destruct m; unfold mix1, bz, negb; ring. Qed.

(* ------------------------------------------------------------------ entries *)
Lemma ent_mix_features m3 x xp i j k :
  ent (mix_features m3 x xp) i j k =
  match ent m3 i j k, ent x i j k, ent xp i j k with
  | Some m, Some a, Some b => Some (mix1 m a b)
  | _, _, _ => None
  end.
Proof.
  unfold ent, mix_features, obind. rewrite nth_error_map3.
  destruct (nth_error m3 i) as [mr|], (nth_error x i) as [xr|], (nth_error xp i) as [pr|]; simpl; try reflexivity.
  - rewrite nth_error_map3.
    destruct (nth_error mr j) as [mc|], (nth_error xr j) as [xc|], (nth_error pr j) as [pc|]; simpl; try reflexivity.
    + rewrite nth_error_map3. reflexivity.
    + destruct (nth_error mc k); [destruct (nth_error xc k)|]; reflexivity.
    + destruct (nth_error mc k); reflexivity.
    + destruct (nth_error mc k); reflexivity.
  - destruct (nth_error mr j) as [mc|]; [|reflexivity].
    destruct (nth_error mc k); [|reflexivity].
    destruct (nth_error xr j) as [xc|]; [|reflexivity]. destruct (nth_error xc k); reflexivity.
  - destruct (nth_error mr j) as [mc|]; [|reflexivity]. destruct (nth_error mc k); reflexivity.
  - destruct (nth_error mr j) as [mc|]; [|reflexivity]. destruct (nth_error mc k); reflexivity.
Qed.

Lemma ent_gather {A} (x : list (list (list A))) pm xp i j k :
  tgather x pm = Some xp ->
  ent xp i j k = match nth_error pm i with Some p => ent x p j k | None => None end.
Proof.
  intros H. unfold ent at 1. unfold obind. rewrite (tgather_nth _ _ _ H i).
  destruct (nth_error pm i); reflexivity.
Qed.

Lemma ent_mask3_feature d (m : list (list bool)) i j k :
  ent (mask3_feature d m) i j k =
  match ent2 m i j with Some b => if (k <? d)%nat then Some b else None | None => None end.
Proof.
  unfold ent, ent2, mask3_feature, obind. rewrite nth_error_map.
  destruct (nth_error m i) as [r|]; simpl; [|reflexivity].
  rewrite nth_error_map. destruct (nth_error r j); simpl; [|reflexivity].
  apply nth_error_repeat.
Qed.

Lemma ent_mask3_hidden f (m : list (list bool)) i j k :
  ent (mask3_hidden f m) i j k =
  if (j <? f)%nat then ent2 m i k else None.
Proof.
  unfold ent, ent2, mask3_hidden, obind. rewrite nth_error_map.
  destruct (nth_error m i) as [r|]; simpl.
  - rewrite nth_error_repeat. destruct (j <? f)%nat; reflexivity.
  - destruct (j <? f)%nat; reflexivity.
Qed.

Lemma ent_mask3_ones b f d i j k :
  ent (mask3_ones b f d) i j k =
  if ((i <? b) && (j <? f) && (k <? d))%nat then Some true else None.
Proof.
  unfold ent, mask3_ones, obind. rewrite nth_error_repeat.
  destruct (i <? b)%nat; simpl; [|reflexivity].
  rewrite nth_error_repeat. destruct (j <? f)%nat; simpl; [|reflexivity].
  apply nth_error_repeat.
Qed.

(* ------------------------------------------------------------------ shapes *)
Lemma all_len_nth {A} n (l : list (list A)) :
  all_len n l = true -> forall i r, nth_error l i = Some r -> length r = n.
Proof.
  unfold all_len. intros H i r Hr. rewrite forallb_forall in H.
  apply Nat.eqb_eq. apply H. eapply nth_error_In; eauto.
Qed.

Lemma nth_error_lt_some {A} (l : list A) i : (i < length l)%nat -> exists a, nth_error l i = Some a.
Proof. intros H. apply nth_error_Some in H. destruct (nth_error l i); [eauto|congruence]. Qed.

Lemma nth_error_some_lt {A} (l : list A) i a : nth_error l i = Some a -> (i < length l)%nat.
Proof. intros H. apply nth_error_Some. congruence. Qed.

Lemma shape3_inv x b f d :
  shape3 x = Some (b, f, d) ->
  length x = b /\ all_len f x = true /\ forallb (all_len d) x = true.
Proof.
  unfold shape3. destruct x as [|[|c0 r0] xs]; try discriminate.
  destruct (all_len _ _ && forallb _ _) eqn:E; [|discriminate].
  intros H; inversion H; subst. apply andb_true_iff in E. tauto.
Qed.

Lemma shape3_ent x b f d :
  shape3 x = Some (b, f, d) ->
  forall i j k, ent x i j k <> None <-> (i < b /\ j < f /\ k < d)%nat.
Proof.
  intros H. apply shape3_inv in H. destruct H as (Hb & Hf & Hd). intros i j k.
  unfold ent, obind. split.
  - destruct (nth_error x i) as [r|] eqn:Hr; [|congruence].
    destruct (nth_error r j) as [c|] eqn:Hc; [|congruence]. intros Hk.
    pose proof (all_len_nth _ _ Hf _ _ Hr) as Lr.
    rewrite forallb_forall in Hd. pose proof (Hd r (nth_error_In _ _ Hr)) as Hdr.
    pose proof (all_len_nth _ _ Hdr _ _ Hc) as Lc.
    apply nth_error_some_lt in Hr. apply nth_error_some_lt in Hc. apply nth_error_Some in Hk. lia.
  - intros (Hi & Hj & Hk). rewrite <- Hb in Hi.
    destruct (nth_error_lt_some _ _ Hi) as [r Hr]. rewrite Hr.
    pose proof (all_len_nth _ _ Hf _ _ Hr) as Lr. rewrite <- Lr in Hj.
    destruct (nth_error_lt_some _ _ Hj) as [c Hc]. rewrite Hc.
    rewrite forallb_forall in Hd. pose proof (Hd r (nth_error_In _ _ Hr)) as Hdr.
    pose proof (all_len_nth _ _ Hdr _ _ Hc) as Lc. rewrite <- Lc in Hk.
    apply nth_error_Some. exact Hk.
Qed.

Lemma shape2_ent2 {A} b n (u : list (list A)) :
  shape2 b n u = true -> forall i j, ent2 u i j <> None <-> (i < b /\ j < n)%nat.
Proof.
  unfold shape2. intros H. apply andb_true_iff in H. destruct H as [Hb Hn]. apply Nat.eqb_eq in Hb.
  intros i j. unfold ent2, obind. split.
  - destruct (nth_error u i) as [r|] eqn:Hr; [|congruence]. intros Hj.
    pose proof (all_len_nth _ _ Hn _ _ Hr). apply nth_error_some_lt in Hr. apply nth_error_Some in Hj. lia.
  - intros [Hi Hj]. rewrite <- Hb in Hi. destruct (nth_error_lt_some _ _ Hi) as [r Hr]. rewrite Hr.
    pose proof (all_len_nth _ _ Hn _ _ Hr) as L. rewrite <- L in Hj. apply nth_error_Some. exact Hj.
Qed.

Lemma ent2_draw_mask rs u i j :
  ent2 (draw_mask rs u) i j =
  match nth_error rs i, ent2 u i j with
  | Some r, Some v => Some (Qltb v r)
  | _, _ => None
  end.
Proof.
  unfold ent2, draw_mask, obind. rewrite nth_error_map2.
  destruct (nth_error rs i) as [r|]; [|reflexivity].
  destruct (nth_error u i) as [ur|]; [|reflexivity].
  rewrite nth_error_map. destruct (nth_error ur j); reflexivity.
Qed.

Lemma draw_mask_defined rs u b n :
  length rs = b -> shape2 b n u = true ->
  forall i j, ent2 (draw_mask rs u) i j <> None <-> (i < b /\ j < n)%nat.
Proof.
  intros Hl Hs i j. rewrite ent2_draw_mask. pose proof (shape2_ent2 _ _ _ Hs i j) as E. split.
  - destruct (nth_error rs i) eqn:Hr; [|congruence]. destruct (ent2 u i j); [|congruence].
    intros _. apply E. congruence.
  - intros Hij. pose proof Hij as [Hi _]. rewrite <- Hl in Hi. destruct (nth_error_lt_some _ _ Hi) as [r Hr].
    rewrite Hr. apply E in Hij. destruct (ent2 u i j); congruence.
Qed.

(* the mask tensor of every mode is defined exactly on x's index domain *)
Lemma mask_and_lam_defined mt mi dr b f d m3 lams :
  length (rates dr) = b ->
  mask_and_lam mt mi dr b f d = Some (m3, lams) ->
  forall i j k, ent m3 i j k <> None <-> (i < b /\ j < f /\ k < d)%nat.
Proof.
  intros Hl H i j k. destruct mt; simpl in H.
  - inversion H; subst. rewrite ent_mask3_ones.
    destruct (i <? length (rates dr))%nat eqn:E1, (j <? f)%nat eqn:E2, (k <? d)%nat eqn:E3; simpl;
      rewrite ?Nat.ltb_lt, ?Nat.ltb_ge in *; split; try congruence; try lia; intros; congruence.
  - unfold obind in H. destruct mi as [mi|]; [|discriminate].
    destruct (shape2 b f (unif dr)) eqn:Hs; simpl in H; [|discriminate].
    destruct (length mi =? f)%nat; simpl in H; [|discriminate].
    inversion H; subst.
    rewrite ent_mask3_feature. pose proof (draw_mask_defined _ _ _ _ eq_refl Hs i j) as E.
    destruct (ent2 (draw_mask (rates dr) (unif dr)) i j).
    + destruct (k <? d)%nat eqn:E3; rewrite ?Nat.ltb_lt, ?Nat.ltb_ge in *; split; try congruence.
      * intros _. assert (Some b <> None) as X by congruence. apply E in X. lia.
      * lia.
    + split; [congruence|]. intros (Hi & Hj & _). exfalso. apply (proj2 E); [lia|reflexivity].
  - destruct (shape2 b d (unif dr)) eqn:Hs; simpl in H; [|discriminate]. inversion H; subst.
    rewrite ent_mask3_hidden. pose proof (draw_mask_defined _ _ _ _ eq_refl Hs i k) as E.
    destruct (j <? f)%nat eqn:E2; rewrite ?Nat.ltb_lt, ?Nat.ltb_ge in *.
    + rewrite E. lia.
    + split; [congruence|lia].
Qed.

(* ------------------------------------------------------------------ inversion of the top-level function *)
Lemma feature_mixup_inv x y nc mt mi dr xm ym :
  feature_mixup x y nc mt mi dr = Some (xm, ym) ->
  exists b f d xp m3 lams,
    nc <> 0%nat /\ shape3 x = Some (b, f, d) /\ length (rates dr) = b /\ length (perm dr) = b /\
    tgather x (perm dr) = Some xp /\ mask_and_lam mt mi dr b f d = Some (m3, lams) /\
    (exists ym0, mix_targets nc y (perm dr) lams = Some ym0 /\
                 ym = if lam_is_nan mt mi then YMNaN else ym0) /\ xm = mix_features m3 x xp.
Proof.
  unfold feature_mixup, obind. destruct (nc =? 0)%nat eqn:Hn; [discriminate|].
  destruct (shape3 x) as [[[b f] d]|] eqn:Hs; [|discriminate].
  destruct (length (rates dr) =? b)%nat eqn:H1; simpl; [|discriminate].
  destruct (length (perm dr) =? b)%nat eqn:H2; simpl; [|discriminate].
  destruct (tgather x (perm dr)) as [xp|] eqn:Hg; [|discriminate].
  destruct (mask_and_lam mt mi dr b f d) as [[m3 lams]|] eqn:Hm; [|discriminate]. simpl.
  destruct (mix_targets nc y (perm dr) lams) as [ym'|] eqn:Ht; [|discriminate].
  intros H; inversion H; subst.
  exists b, f, d, xp, m3, lams. apply Nat.eqb_neq in Hn. apply Nat.eqb_eq in H1. apply Nat.eqb_eq in H2.
  repeat split; auto. exists ym'. split; [exact Ht|reflexivity].
Qed.

(* ------------------------------------------------------------------ features *)
Lemma mask_and_lam_mask mt mi dr b f d m3 lams i j k m :
  mask_and_lam mt mi dr b f d = Some (m3, lams) ->
  ent m3 i j k = Some m -> mask_at mt dr i j k = Some m.
Proof.
  intros H E. destruct mt; simpl in *.
  - inversion H; subst. rewrite ent_mask3_ones in E. destruct (_ && _); congruence.
  - unfold obind in H. destruct mi as [mi|]; [|discriminate].
    destruct (negb _); [discriminate|].
    inversion H; subst. rewrite ent_mask3_feature in E.
    destruct (ent2 _ i j); [|discriminate]. destruct (k <? d)%nat; congruence.
  - destruct (negb _); [discriminate|]. inversion H; subst.
    rewrite ent_mask3_hidden in E. destruct (j <? f)%nat; congruence.
Qed.

Lemma mask_and_lam_lams mt mi dr b f d m3 lams :
  mask_and_lam mt mi dr b f d = Some (m3, lams) -> lams = mixup_lams mt mi dr.
Proof.
  intros H. destruct mt; simpl in *.
  - inversion H; reflexivity.
  - unfold obind in H. destruct mi as [mi|]; [|discriminate].
    destruct (negb _); [discriminate|].
    inversion H; reflexivity.
  - destruct (negb _); [discriminate|]. inversion H; reflexivity.
Qed.

(* every entry of the mixed tensor is the entry at the SAME position (j, k) of the row itself (mask entry true) or
   of its partner row perm[i] (mask entry false) *)
Lemma mixup_entry x y nc mt mi dr xm ym :
  feature_mixup x y nc mt mi dr = Some (xm, ym) ->
  forall i j k v, ent xm i j k = Some v ->
  exists p m, nth_error (perm dr) i = Some p /\ (p < length x)%nat /\
              mask_at mt dr i j k = Some m /\ ent x (if m then i else p) j k = Some v.
Proof.
  intros H i j k v E.
  destruct (feature_mixup_inv _ _ _ _ _ _ _ _ H) as (b & f & d & xp & m3 & lams & Hn & Hs & Hr & Hp & Hg & Hm & Ht & ->).
  rewrite ent_mix_features in E.
  destruct (ent m3 i j k) as [m|] eqn:Em; [|discriminate].
  destruct (ent x i j k) as [a|] eqn:Ea; [|discriminate].
  destruct (ent xp i j k) as [c|] eqn:Ec; [|discriminate].
  rewrite (ent_gather _ _ _ i j k Hg) in Ec.
  destruct (nth_error (perm dr) i) as [p|] eqn:Ep; [|discriminate].
  exists p, m. split; [reflexivity|]. split; [eapply tgather_in_range; eauto|].
  split; [eapply mask_and_lam_mask; eauto|].
  inversion E; subst. rewrite mix1_sel. destruct m; assumption.
Qed.

(* the mixed tensor has exactly the index domain of the input *)
Lemma mixup_same_shape x y nc mt mi dr xm ym :
  feature_mixup x y nc mt mi dr = Some (xm, ym) ->
  forall i j k, ent xm i j k <> None <-> ent x i j k <> None.
Proof.
  intros H i j k.
  destruct (feature_mixup_inv _ _ _ _ _ _ _ _ H) as (b & f & d & xp & m3 & lams & Hn & Hs & Hr & Hp & Hg & Hm & Ht & ->).
  rewrite ent_mix_features. pose proof (shape3_ent _ _ _ _ Hs) as Sx.
  pose proof (mask_and_lam_defined _ _ _ _ _ _ _ _ Hr Hm i j k) as Sm.
  split.
  - destruct (ent m3 i j k); [|congruence]. destruct (ent x i j k); congruence.
  - intros Hx. apply Sx in Hx. pose proof (proj2 Sm Hx) as Hm3.
    destruct (ent m3 i j k); [|congruence].
    pose proof (proj2 (Sx i j k) Hx). destruct (ent x i j k); [|congruence].
    rewrite (ent_gather _ _ _ i j k Hg).
    destruct Hx as (Hi & Hj & Hk). rewrite <- Hp in Hi. destruct (nth_error_lt_some _ _ Hi) as [p Ep]. rewrite Ep.
    assert (Hpb : (p < b)%nat).
    { apply shape3_inv in Hs. destruct Hs as [Hb _]. rewrite <- Hb. eapply tgather_in_range; eauto. }
    assert (ent x p j k <> None) as X by (apply Sx; lia).
    destruct (ent x p j k); congruence.
Qed.

(* mixup off: the feature tensor is returned unchanged *)
Lemma map3_repeat_left {M A} (g : M -> A -> A -> A) m n l l' :
  length l = n -> length l' = n ->
  (forall a b, In a l -> In b l' -> g m a b = a) ->
  map3 g (repeat m n) l l' = l.
Proof.
  revert l l'; induction n as [|n IH]; intros [|a l] [|b l']; simpl; try discriminate; intros H1 H2 Hg; [reflexivity|].
  rewrite Hg by (left; reflexivity). f_equal. apply IH; [lia|lia|]. intros; apply Hg; right; assumption.
Qed.

Lemma all_len_In {A} n (l : list (list A)) r : all_len n l = true -> In r l -> length r = n.
Proof. unfold all_len. rewrite forallb_forall. intros H Hr. apply Nat.eqb_eq. auto. Qed.

Lemma mixup_off_features x y nc mi dr xm ym :
  feature_mixup x y nc MixNone mi dr = Some (xm, ym) -> xm = x.
Proof.
  intros H.
  destruct (feature_mixup_inv _ _ _ _ _ _ _ _ H) as (b & f & d & xp & m3 & lams & Hn & Hs & Hr & Hp & Hg & Hm & Ht & ->).
  simpl in Hm. inversion Hm; subst m3 lams. clear Hm.
  pose proof (shape3_inv _ _ _ _ Hs) as (Hb & Hf & Hd).
  assert (Hxp : forall r, In r xp -> In r x).
  { intros r Hin. apply In_nth_error in Hin. destruct Hin as [i Hi].
    rewrite (tgather_nth _ _ _ Hg i) in Hi. destruct (nth_error (perm dr) i); [|discriminate].
    eapply nth_error_In; eauto. }
  unfold mix_features, mask3_ones. apply map3_repeat_left.
  - exact Hb.
  - rewrite (tgather_length _ _ _ Hg). exact Hp.
  - intros r r' Hr1 Hr2. apply Hxp in Hr2. rewrite forallb_forall in Hd.
    apply map3_repeat_left.
    + eapply all_len_In; eauto.
    + eapply all_len_In; eauto.
    + intros c c' Hc Hc'. apply map3_repeat_left.
      * eapply all_len_In; [apply Hd; exact Hr1|exact Hc].
      * eapply all_len_In; [apply Hd; exact Hr2|exact Hc'].
      * intros; apply mix1_sel.
Qed.

(* ------------------------------------------------------------------ targets *)
Lemma length_map3 {A B C D} (f : A -> B -> C -> D) l1 l2 l3 :
  length l1 = length l2 -> length l2 = length l3 -> length (map3 f l1 l2 l3) = length l1.
Proof.
  revert l2 l3; induction l1 as [|a r IH]; intros [|b r2] [|c r3]; simpl; try discriminate; try reflexivity.
  intros H1 H2. f_equal. apply IH; lia.
Qed.

Lemma one_hot_inv nc y a : one_hot nc y = Some a -> (y < nc)%nat /\ a = onehot_row nc y.
Proof.
  unfold one_hot. destruct (y <? nc)%nat eqn:E; [|discriminate].
  intros H; inversion H. apply Nat.ltb_lt in E. auto.
Qed.

(* class targets: row i is lam_i * onehot(y_i) + (1 - lam_i) * onehot(y_perm[i]) *)
Lemma mix_targets_class_rows nc ys pm lams ym :
  nc <> 1%nat -> mix_targets nc (YIdx ys) pm lams = Some ym -> length pm = length ys ->
  exists rows, ym = YMClass rows /\ length rows = length ys /\
    forall i row, nth_error rows i = Some row ->
      exists lam p yi yp,
        nth_error lams i = Some lam /\ nth_error pm i = Some p /\
        nth_error ys i = Some yi /\ nth_error ys p = Some yp /\ (yi < nc)%nat /\ (yp < nc)%nat /\
        row = map2 (cvx lam) (onehot_row nc yi) (onehot_row nc yp).
Proof.
  intros Hn H Hl. unfold mix_targets in H. apply Nat.eqb_neq in Hn. rewrite Hn in H. unfold obind in H.
  destruct (tgather ys pm) as [ysh|] eqn:Hg; [|discriminate].
  destruct (mapM (one_hot nc) ys) as [oh|] eqn:Ho; [|discriminate].
  destruct (mapM (one_hot nc) ysh) as [ohs|] eqn:Hos; [|discriminate].
  destruct (length lams =? length ys)%nat eqn:Hll; [|discriminate]. apply Nat.eqb_eq in Hll.
  inversion H; subst ym. eexists; split; [reflexivity|]. split.
  - rewrite length_map3; [exact Hll| |].
    + rewrite (mapM_length _ _ _ Ho). exact Hll.
    + rewrite (mapM_length _ _ _ Ho), (mapM_length _ _ _ Hos), (tgather_length _ _ _ Hg). symmetry; exact Hl.
  - intros i row Hrow. rewrite nth_error_map3 in Hrow.
    destruct (nth_error lams i) as [lam|] eqn:El; [|discriminate].
    destruct (nth_error oh i) as [a|] eqn:Ea; [|discriminate].
    destruct (nth_error ohs i) as [c|] eqn:Ec; [|discriminate].
    rewrite (mapM_nth _ _ _ Ho i) in Ea. destruct (nth_error ys i) as [yi|] eqn:Eyi; [|discriminate].
    rewrite (mapM_nth _ _ _ Hos i) in Ec. destruct (nth_error ysh i) as [yp|] eqn:Eyp; [|discriminate].
    rewrite (tgather_nth _ _ _ Hg i) in Eyp. destruct (nth_error pm i) as [p|] eqn:Ep; [|discriminate].
    apply one_hot_inv in Ea. apply one_hot_inv in Ec. destruct Ea as [Hyi ->]. destruct Ec as [Hyp ->].
    exists lam, p, yi, yp. inversion Hrow. repeat split; auto.
Qed.

Lemma mix_targets_class_y nc y pm lams ym :
  nc <> 1%nat -> mix_targets nc y pm lams = Some ym -> exists ys, y = YIdx ys.
Proof.
  intros Hn H. unfold mix_targets in H. apply Nat.eqb_neq in Hn. rewrite Hn in H.
  destruct y; [eauto|discriminate].
Qed.

Lemma mix_targets_scalar y pm lams ym :
  mix_targets 1 y pm lams = Some ym -> length pm = length (scalar_values y) ->
  exists vals, ym = YMScalar vals /\ length vals = length (scalar_values y) /\
    forall i v, nth_error vals i = Some v ->
      exists lam p yi yp,
        nth_error lams i = Some lam /\ nth_error pm i = Some p /\
        nth_error (scalar_values y) i = Some yi /\ nth_error (scalar_values y) p = Some yp /\
        v = cvx lam yi yp.
Proof.
  intros H Hl. unfold mix_targets in H. simpl in H. fold (scalar_values y) in H. unfold obind in H.
  destruct (tgather (scalar_values y) pm) as [ysh|] eqn:Hg; [|discriminate].
  destruct (length lams =? length (scalar_values y))%nat eqn:Hll; [|discriminate]. apply Nat.eqb_eq in Hll.
  inversion H; subst ym. eexists; split; [reflexivity|]. split.
  - rewrite length_map3; [exact Hll|exact Hll|]. rewrite (tgather_length _ _ _ Hg). symmetry; exact Hl.
  - intros i v Hv. rewrite nth_error_map3 in Hv.
    destruct (nth_error lams i) as [lam|] eqn:El; [|discriminate].
    destruct (nth_error (scalar_values y) i) as [yi|] eqn:Eyi; [|discriminate].
    destruct (nth_error ysh i) as [yp|] eqn:Eyp; [|discriminate].
    rewrite (tgather_nth _ _ _ Hg i) in Eyp. destruct (nth_error pm i) as [p|] eqn:Ep; [|discriminate].
    exists lam, p, yi, yp. inversion Hv. repeat split; auto.
Qed.

(* ------------------------------------------------------------------ rational arithmetic *)
Lemma cvx_one a b : cvx 1 a b == a.
Proof. unfold cvx. ring. Qed.

Lemma cvx_nonneg lam a b : 0 <= lam <= 1 -> 0 <= a -> 0 <= b -> 0 <= cvx lam a b.
Proof.
  intros [H0 H1] Ha Hb. unfold cvx.
  assert (0 <= lam * a) by (apply Qmult_le_0_compat; assumption).
  assert (0 <= (1 - lam) * b) by (apply Qmult_le_0_compat; [lra|assumption]).
  lra.
Qed.

Lemma cvx_between lam a b : 0 <= lam <= 1 -> a <= b -> a <= cvx lam a b <= b.
Proof.
  intros [H0 H1] Hab. unfold cvx.
  assert (E1 : lam * a + (1 - lam) * b - a == (1 - lam) * (b - a)) by ring.
  assert (E2 : b - (lam * a + (1 - lam) * b) == lam * (b - a)) by ring.
  assert (0 <= (1 - lam) * (b - a)) by (apply Qmult_le_0_compat; lra).
  assert (0 <= lam * (b - a)) by (apply Qmult_le_0_compat; lra).
  split; lra.
Qed.

Lemma cvx_between' lam a b : 0 <= lam <= 1 -> b <= a -> b <= cvx lam a b <= a.
Proof.
  intros [H0 H1] Hab. unfold cvx.
  assert (E1 : lam * a + (1 - lam) * b - b == lam * (a - b)) by ring.
  assert (E2 : a - (lam * a + (1 - lam) * b) == (1 - lam) * (a - b)) by ring.
  assert (0 <= (1 - lam) * (a - b)) by (apply Qmult_le_0_compat; lra).
  assert (0 <= lam * (a - b)) by (apply Qmult_le_0_compat; lra).
  split; lra.
Qed.

Lemma qsum_map2_cvx lam a b :
  length a = length b -> qsum (map2 (cvx lam) a b) == lam * qsum a + (1 - lam) * qsum b.
Proof.
  revert b; induction a as [|x a IH]; intros [|y b]; simpl; try discriminate; intros H.
  - ring.
  - rewrite IH by lia. unfold cvx. ring.
Qed.

Lemma qsum_indicator y s n :
  qsum (map (fun k => bq (k =? y)%nat) (seq s n)) == if ((s <=? y) && (y <? s + n))%nat then 1 else 0.
Proof.
  revert s; induction n as [|n IH]; intros s.
  - cbn [seq map qsum fold_right].
    destruct (s <=? y)%nat eqn:E1, (y <? s + 0)%nat eqn:E2; cbn [andb]; try reflexivity.
    apply Nat.leb_le in E1. apply Nat.ltb_lt in E2. lia.
  - cbn [seq map qsum fold_right]. fold (qsum (map (fun k => bq (k =? y)%nat) (seq (S s) n))). rewrite IH.
    destruct (s =? y)%nat eqn:E, (S s <=? y)%nat eqn:E1, (s <=? y)%nat eqn:E2,
             (y <? S s + n)%nat eqn:E3, (y <? s + S n)%nat eqn:E4;
      cbn [andb bq]; try ring;
      rewrite ?Nat.eqb_eq, ?Nat.eqb_neq, ?Nat.leb_le, ?Nat.leb_gt, ?Nat.ltb_lt, ?Nat.ltb_ge in *; lia.
Qed.

Lemma qsum_onehot nc y : (y < nc)%nat -> qsum (onehot_row nc y) == 1.
Proof.
  intros H. unfold onehot_row. rewrite qsum_indicator. simpl.
  assert ((y <? nc)%nat = true) as -> by (apply Nat.ltb_lt; lia). reflexivity.
Qed.

Lemma onehot_nonneg nc y : Forall (fun v => 0 <= v) (onehot_row nc y).
Proof.
  unfold onehot_row. apply Forall_forall. intros v Hv. apply in_map_iff in Hv. destruct Hv as [k [<- _]].
  destruct (k =? y)%nat; simpl; lra.
Qed.

Lemma length_onehot nc y : length (onehot_row nc y) = nc.
Proof. unfold onehot_row. rewrite map_length, seq_length. reflexivity. Qed.

Lemma Forall_map2 {A B C} (P : C -> Prop) (QA : A -> Prop) (QB : B -> Prop) (f : A -> B -> C) l1 l2 :
  (forall a b, QA a -> QB b -> P (f a b)) -> Forall QA l1 -> Forall QB l2 -> Forall P (map2 f l1 l2).
Proof.
  intros Hf H1. revert l2; induction H1; intros [|b l2] H2; simpl; constructor; inversion H2; subst; auto.
Qed.

(* a convex combination of two one-hot rows is a probability vector *)
Lemma mixed_onehot_distribution lam nc yi yp :
  0 <= lam <= 1 -> (yi < nc)%nat -> (yp < nc)%nat ->
  let row := map2 (cvx lam) (onehot_row nc yi) (onehot_row nc yp) in
  Forall (fun v => 0 <= v) row /\ qsum row == 1.
Proof.
  intros Hl Hi Hp. split.
  - eapply Forall_map2; [|apply onehot_nonneg|apply onehot_nonneg]. intros; apply cvx_nonneg; assumption.
  - rewrite qsum_map2_cvx by (rewrite !length_onehot; reflexivity).
    rewrite !qsum_onehot by assumption. ring.
Qed.

(* lambda in feature mode *)
Lemma qsum_scaled mi mrow s :
  ~ s == 0 ->
  qsum (map2 (fun w m => w * bq m) (map (fun m => m / s) mi) mrow) == kept_mass mi mrow / s.
Proof.
  intros Hs. unfold kept_mass. revert mrow; induction mi as [|a mi IH]; intros [|m mrow]; simpl.
  - field; assumption.
  - field; assumption.
  - field; assumption.
  - rewrite IH. field; assumption.
Qed.

Lemma lam_feature_share mi mrow : 0 < qsum mi -> lam_feature mi mrow == kept_mass mi mrow / qsum mi.
Proof.
  intros H. unfold lam_feature, norm_mi. apply qsum_scaled. intros E. rewrite E in H. apply (Qlt_irrefl 0 H).
Qed.

Lemma kept_mass_bounds mi mrow :
  Forall (fun v => 0 <= v) mi -> 0 <= kept_mass mi mrow /\ kept_mass mi mrow <= qsum mi.
Proof.
  unfold kept_mass. intros H. revert mrow; induction H as [|a mi Ha H IH]; intros [|m mrow]; simpl.
  - split; lra.
  - split; lra.
  - assert (0 <= qsum mi) by (destruct (IH []) as [? ?]; simpl in *; lra). split; lra.
  - destruct (IH mrow) as [I1 I2]. destruct m; simpl; split; lra.
Qed.

Lemma lam_feature_unit mi mrow :
  Forall (fun v => 0 <= v) mi -> 0 < qsum mi -> 0 <= lam_feature mi mrow <= 1.
Proof.
  intros Hn Hs. rewrite (lam_feature_share _ _ Hs). destruct (kept_mass_bounds mi mrow Hn) as [K0 K1].
  split.
  - apply Qle_shift_div_l; [assumption|lra].
  - apply Qle_shift_div_r; [assumption|lra].
Qed.

Definition unit_interval (q : Q) : Prop := 0 <= q <= 1.

Lemma mixup_lams_unit mt mi dr :
  Forall unit_interval (rates dr) ->
  (mt = MixFeature -> exists m, mi = Some m /\ Forall (fun v => 0 <= v) m /\ 0 < qsum m) ->
  Forall unit_interval (mixup_lams mt mi dr).
Proof.
  intros Hr Hmi. destruct mt; simpl.
  - apply Forall_forall. intros v Hv. apply in_map_iff in Hv. destruct Hv as [? [<- _]]. unfold unit_interval; lra.
  - destruct (Hmi eq_refl) as (m & -> & Hn & Hs). apply Forall_forall. intros v Hv.
    apply in_map_iff in Hv. destruct Hv as [mrow [<- _]]. apply lam_feature_unit; assumption.
  - exact Hr.
Qed.

(* ------------------------------------------------------------------ assembled statements *)
Lemma length_map2 {A B C} (f : A -> B -> C) l1 l2 : length l1 = length l2 -> length (map2 f l1 l2) = length l1.
Proof. revert l2; induction l1; intros [|b l2]; simpl; try discriminate; auto. Qed.

Lemma mask_and_lam_length mt mi dr b f d m3 lams :
  length (rates dr) = b -> mask_and_lam mt mi dr b f d = Some (m3, lams) -> length lams = b.
Proof.
  intros Hl H. destruct mt; simpl in H.
  - inversion H. rewrite map_length. exact Hl.
  - unfold obind in H. destruct mi as [mi|]; [|discriminate].
    destruct (shape2 b f (unif dr)) eqn:Hs; simpl in H; [|discriminate].
    destruct (length mi =? f)%nat; simpl in H; [|discriminate].
    inversion H. rewrite map_length. unfold draw_mask.
    unfold shape2 in Hs. apply andb_true_iff in Hs. destruct Hs as [Hb _]. apply Nat.eqb_eq in Hb.
    rewrite length_map2; lia.
  - destruct (negb _); [discriminate|]. inversion H; subst. reflexivity.
Qed.

Lemma mixup_feature_whole_column x y nc mi dr xm ym :
  feature_mixup x y nc MixFeature mi dr = Some (xm, ym) ->
  forall i j, exists src, (src = i \/ nth_error (perm dr) i = Some src) /\
    forall k v, ent xm i j k = Some v -> ent x src j k = Some v.
Proof.
  intros H i j.
  destruct (ent2 (draw_mask (rates dr) (unif dr)) i j) as [[|]|] eqn:Em.
  - exists i. split; [left; reflexivity|]. intros k v E.
    destruct (mixup_entry _ _ _ _ _ _ _ _ H i j k v E) as (p & m & Hp & _ & Hm & Hv). simpl in Hm.
    rewrite Em in Hm. inversion Hm; subst. exact Hv.
  - destruct (nth_error (perm dr) i) as [p|] eqn:Ep.
    + exists p. split; [right; reflexivity|]. intros k v E.
      destruct (mixup_entry _ _ _ _ _ _ _ _ H i j k v E) as (p' & m & Hp & _ & Hm & Hv). simpl in Hm.
      rewrite Em in Hm. inversion Hm; subst. congruence.
    + exists i. split; [left; reflexivity|]. intros k v E.
      destruct (mixup_entry _ _ _ _ _ _ _ _ H i j k v E) as (p' & m & Hp & _). congruence.
  - exists i. split; [left; reflexivity|]. intros k v E.
    destruct (mixup_entry _ _ _ _ _ _ _ _ H i j k v E) as (p & m & Hp & _ & Hm & Hv). simpl in Hm. congruence.
Qed.

Lemma mixup_hidden_whole_channel x y nc mi dr xm ym :
  feature_mixup x y nc MixHidden mi dr = Some (xm, ym) ->
  forall i k, exists src, (src = i \/ nth_error (perm dr) i = Some src) /\
    forall j v, ent xm i j k = Some v -> ent x src j k = Some v.
Proof.
  intros H i k.
  destruct (ent2 (draw_mask (rates dr) (unif dr)) i k) as [[|]|] eqn:Em.
  - exists i. split; [left; reflexivity|]. intros j v E.
    destruct (mixup_entry _ _ _ _ _ _ _ _ H i j k v E) as (p & m & Hp & _ & Hm & Hv). simpl in Hm.
    rewrite Em in Hm. inversion Hm; subst. exact Hv.
  - destruct (nth_error (perm dr) i) as [p|] eqn:Ep.
    + exists p. split; [right; reflexivity|]. intros j v E.
      destruct (mixup_entry _ _ _ _ _ _ _ _ H i j k v E) as (p' & m & Hp & _ & Hm & Hv). simpl in Hm.
      rewrite Em in Hm. inversion Hm; subst. congruence.
    + exists i. split; [left; reflexivity|]. intros j v E.
      destruct (mixup_entry _ _ _ _ _ _ _ _ H i j k v E) as (p' & m & Hp & _). congruence.
  - exists i. split; [left; reflexivity|]. intros j v E.
    destruct (mixup_entry _ _ _ _ _ _ _ _ H i j k v E) as (p & m & Hp & _ & Hm & Hv). simpl in Hm. congruence.
Qed.

(* class targets *)
Lemma mixup_class_target x y nc mt mi dr xm ym :
  feature_mixup x y nc mt mi dr = Some (xm, ym) -> nc <> 1%nat -> ym <> YMNaN ->
  exists ys rows, y = YIdx ys /\ ym = YMClass rows /\ length rows = length x /\
    forall i row, nth_error rows i = Some row ->
      exists lam p yi yp,
        nth_error (mixup_lams mt mi dr) i = Some lam /\ nth_error (perm dr) i = Some p /\
        nth_error ys i = Some yi /\ nth_error ys p = Some yp /\ (yi < nc)%nat /\ (yp < nc)%nat /\
        row = map2 (cvx lam) (onehot_row nc yi) (onehot_row nc yp).
Proof.
  intros H Hn Hnan.
  destruct (feature_mixup_inv _ _ _ _ _ _ _ _ H) as (b & f & d & xp & m3 & lams & _ & Hs & Hr & Hp & Hg & Hm & Ht & ->).
  destruct Ht as (ym0 & Ht & Hym). destruct (lam_is_nan mt mi) eqn:Enan; [congruence|]. subst ym0.
  destruct (mix_targets_class_y _ _ _ _ _ Hn Ht) as [ys ->].
  pose proof (mask_and_lam_length _ _ _ _ _ _ _ _ Hr Hm) as Hll.
  assert (Hys : length lams = length ys).
  { unfold mix_targets in Ht. apply Nat.eqb_neq in Hn. rewrite Hn in Ht. unfold obind in Ht.
    destruct (tgather ys (perm dr)); [|discriminate]. destruct (mapM _ ys); [|discriminate].
    destruct (mapM _ l); [|discriminate]. destruct (length lams =? length ys)%nat eqn:E; [|discriminate].
    apply Nat.eqb_eq in E. exact E. }
  destruct (mix_targets_class_rows _ _ _ _ _ Hn Ht) as (rows & -> & Hlen & Hrows); [lia|].
  rewrite (mask_and_lam_lams _ _ _ _ _ _ _ _ Hm) in Hrows.
  exists ys, rows. repeat split; auto.
  apply shape3_inv in Hs. destruct Hs as [Hb _]. lia.
Qed.

Lemma mixup_class_distribution x y nc mt mi dr xm rows :
  feature_mixup x y nc mt mi dr = Some (xm, YMClass rows) -> nc <> 1%nat ->
  Forall unit_interval (rates dr) ->
  (mt = MixFeature -> exists m, mi = Some m /\ Forall (fun v => 0 <= v) m /\ 0 < qsum m) ->
  forall row, In row rows -> Forall (fun v => 0 <= v) row /\ qsum row == 1.
Proof.
  intros H Hn Hr Hmi row Hin.
  assert (Hnan : YMClass rows <> YMNaN) by discriminate.
  destruct (mixup_class_target _ _ _ _ _ _ _ _ H Hn Hnan) as (ys & rows' & -> & Hy & _ & Hrows).
  inversion Hy; subst rows'. apply In_nth_error in Hin. destruct Hin as [i Hi].
  destruct (Hrows i row Hi) as (lam & p & yi & yp & Hl & _ & _ & _ & Hyi & Hyp & ->).
  pose proof (mixup_lams_unit mt mi dr Hr Hmi) as HU. rewrite Forall_forall in HU.
  apply mixed_onehot_distribution; auto. apply HU. eapply nth_error_In; eauto.
Qed.

(* scalar targets *)
Lemma mixup_scalar_target x y mt mi dr xm ym :
  feature_mixup x y 1 mt mi dr = Some (xm, ym) -> ym <> YMNaN ->
  exists vals, ym = YMScalar vals /\ length vals = length x /\
    forall i v, nth_error vals i = Some v ->
      exists lam p yi yp,
        nth_error (mixup_lams mt mi dr) i = Some lam /\ nth_error (perm dr) i = Some p /\
        nth_error (scalar_values y) i = Some yi /\ nth_error (scalar_values y) p = Some yp /\
        v = cvx lam yi yp.
Proof.
  intros H Hnan.
  destruct (feature_mixup_inv _ _ _ _ _ _ _ _ H) as (b & f & d & xp & m3 & lams & _ & Hs & Hr & Hp & Hg & Hm & Ht & ->).
  destruct Ht as (ym0 & Ht & Hym). destruct (lam_is_nan mt mi) eqn:Enan; [congruence|]. subst ym0.
  pose proof (mask_and_lam_length _ _ _ _ _ _ _ _ Hr Hm) as Hll.
  assert (Hys : length lams = length (scalar_values y)).
  { unfold mix_targets in Ht. simpl in Ht. unfold obind in Ht.
    destruct (tgather (scalar_values y) (perm dr)); [|discriminate].
    destruct (length lams =? length (scalar_values y))%nat eqn:E; [|discriminate].
    apply Nat.eqb_eq in E. exact E. }
  destruct (mix_targets_scalar _ _ _ _ Ht) as (vals & -> & Hlen & Hvals); [lia|].
  rewrite (mask_and_lam_lams _ _ _ _ _ _ _ _ Hm) in Hvals.
  exists vals. repeat split; auto.
  apply shape3_inv in Hs. destruct Hs as [Hb _]. lia.
Qed.

(* lambda in feature mode: share of mutual-information mass of the kept columns *)
Lemma mixup_feature_lambda mi dr :
  0 < qsum mi ->
  forall i lam, nth_error (mixup_lams MixFeature (Some mi) dr) i = Some lam ->
    exists mrow, nth_error (draw_mask (rates dr) (unif dr)) i = Some mrow /\
                 lam == kept_mass mi mrow / qsum mi.
Proof.
  intros Hs i lam Hl. simpl in Hl. rewrite nth_error_map in Hl.
  destruct (nth_error (draw_mask (rates dr) (unif dr)) i) as [mrow|]; [|discriminate].
  exists mrow. split; [reflexivity|]. inversion Hl. apply lam_feature_share. exact Hs.
Qed.

(* the target is nan exactly for zero-sum scores in feature mode *)
Lemma mixup_nan_iff x y nc mt mi dr xm ym :
  feature_mixup x y nc mt mi dr = Some (xm, ym) ->
  (ym = YMNaN <-> mt = MixFeature /\ exists m, mi = Some m /\ qsum m == 0).
Proof.
  intros H.
  destruct (feature_mixup_inv _ _ _ _ _ _ _ _ H) as (b & f & d & xp & m3 & lams & Hn & _ & _ & _ & _ & _ & Ht & _).
  destruct Ht as (ym0 & Ht & ->).
  assert (Hym0 : ym0 <> YMNaN).
  { unfold mix_targets, obind in Ht. destruct (nc =? 1)%nat.
    - destruct (tgather _ _); [|discriminate]. destruct (_ =? _)%nat; [|discriminate]. inversion Ht. discriminate.
    - destruct y; [|discriminate]. destruct (tgather _ _); [|discriminate]. destruct (mapM _ ys); [|discriminate].
      destruct (mapM _ l); [|discriminate]. destruct (_ =? _)%nat; [|discriminate]. inversion Ht. discriminate. }
  unfold lam_is_nan. destruct mt; try (split; [intros E; congruence|intros [E _]; discriminate]).
  destruct mi as [m|]; [|split; [intros E; congruence|intros [_ (m & E & _)]; discriminate]].
  destruct (Qeq_bool (qsum m) 0) eqn:E.
  - split; [|reflexivity]. intros _. split; [reflexivity|]. exists m. split; [reflexivity|].
    apply Qeq_bool_iff. exact E.
  - split; [intros E'; congruence|]. intros [_ (m' & Em & Hz)]. inversion Em; subst m'.
    apply Qeq_bool_iff in Hz. congruence.
Qed.

(* mixup off: plain labels *)
Lemma mixup_off_lams mi dr i lam : nth_error (mixup_lams MixNone mi dr) i = Some lam -> lam = 1.
Proof.
  simpl. rewrite nth_error_map. destruct (nth_error (rates dr) i); simpl; congruence.
Qed.

Lemma map2_cvx_one a b : length a = length b -> Forall2 Qeq (map2 (cvx 1) a b) a.
Proof.
  revert b; induction a as [|x a IH]; intros [|y b]; simpl; try discriminate; intros H; constructor.
  - apply cvx_one.
  - apply IH. lia.
Qed.

Lemma mixup_off_class_target x y nc mi dr xm ym :
  feature_mixup x y nc MixNone mi dr = Some (xm, ym) -> nc <> 1%nat ->
  exists ys rows, y = YIdx ys /\ ym = YMClass rows /\ length rows = length x /\
    forall i row, nth_error rows i = Some row ->
      exists yi, nth_error ys i = Some yi /\ (yi < nc)%nat /\ Forall2 Qeq row (onehot_row nc yi).
Proof.
  intros H Hn.
  assert (Hnan : ym <> YMNaN).
  { intros E. apply (mixup_nan_iff _ _ _ _ _ _ _ _ H) in E. destruct E; discriminate. }
  destruct (mixup_class_target _ _ _ _ _ _ _ _ H Hn Hnan) as (ys & rows & Hy & Hym & Hlen & Hrows).
  exists ys, rows. repeat split; auto. intros i row Hi.
  destruct (Hrows i row Hi) as (lam & p & yi & yp & Hl & _ & Hyi & _ & Hlt & _ & ->).
  apply mixup_off_lams in Hl. subst lam. exists yi. repeat split; auto.
  apply map2_cvx_one. rewrite !length_onehot. reflexivity.
Qed.

Lemma mixup_off_scalar_target x y mi dr xm ym :
  feature_mixup x y 1 MixNone mi dr = Some (xm, ym) ->
  exists vals, ym = YMScalar vals /\ length vals = length x /\
    forall i v, nth_error vals i = Some v ->
      exists yi, nth_error (scalar_values y) i = Some yi /\ v == yi.
Proof.
  intros H.
  assert (Hnan : ym <> YMNaN).
  { intros E. apply (mixup_nan_iff _ _ _ _ _ _ _ _ H) in E. destruct E; discriminate. }
  destruct (mixup_scalar_target _ _ _ _ _ _ _ H Hnan) as (vals & Hym & Hlen & Hvals).
  exists vals. repeat split; auto. intros i v Hi.
  destruct (Hvals i v Hi) as (lam & p & yi & yp & Hl & _ & Hyi & _ & ->).
  apply mixup_off_lams in Hl. subst lam. exists yi. split; [assumption|apply cvx_one].
Qed.

(* the two-sided entry statement used by the property text *)
Lemma mixup_entry_own_or_partner x y nc mt mi dr xm ym :
  feature_mixup x y nc mt mi dr = Some (xm, ym) ->
  forall i j k v, ent xm i j k = Some v ->
  exists p, nth_error (perm dr) i = Some p /\ (p < length x)%nat /\
            (ent x i j k = Some v \/ ent x p j k = Some v).
Proof.
  intros H i j k v E. destruct (mixup_entry _ _ _ _ _ _ _ _ H i j k v E) as (p & m & Hp & Hlt & _ & Hv).
  exists p. repeat split; auto. destruct m; auto.
Qed.

(* ------------------------------------------------------------------ growth 2: L1 normalisation at full strength *)
(* for EVERY non-negative score vector with positive sum and EVERY mask row, lambda is the share of the kept mass and a
   number in [0,1] (any mass: 1, 1 +- 1e-5, 10, ...) *)
Lemma lam_feature_share_unit mi mrow :
  Forall (fun v => 0 <= v) mi -> 0 < qsum mi ->
  lam_feature mi mrow == kept_mass mi mrow / qsum mi /\ 0 <= lam_feature mi mrow <= 1.
Proof. intros Hn Hs. split; [apply lam_feature_share; exact Hs|apply lam_feature_unit; assumption]. Qed.

Lemma kept_mass_all_true mi : kept_mass mi (repeat true (length mi)) == qsum mi.
Proof.
  unfold kept_mass. induction mi as [|a mi IH]; simpl; [reflexivity|]. rewrite IH. ring.
Qed.

Lemma kept_mass_all_false mi : kept_mass mi (repeat false (length mi)) == 0.
Proof.
  unfold kept_mass. induction mi as [|a mi IH]; simpl; [reflexivity|]. rewrite IH. ring.
Qed.

(* a row that keeps every column has lambda = 1 (plain own target), one that keeps none has lambda = 0 *)
Lemma lam_feature_all_kept mi : 0 < qsum mi -> lam_feature mi (repeat true (length mi)) == 1.
Proof.
  intros Hs. rewrite (lam_feature_share _ _ Hs), kept_mass_all_true. field.
  intros E. rewrite E in Hs. apply (Qlt_irrefl 0 Hs).
Qed.

Lemma lam_feature_none_kept mi : 0 < qsum mi -> lam_feature mi (repeat false (length mi)) == 0.
Proof.
  intros Hs. rewrite (lam_feature_share _ _ Hs), kept_mass_all_false. field.
  intros E. rewrite E in Hs. apply (Qlt_irrefl 0 Hs).
Qed.

(* F = 1: feature mode swaps the whole row or nothing, and lambda says exactly which (1 = own, 0 = partner), whatever
   the single score is *)
Lemma lam_feature_single_column m b : 0 < m -> lam_feature [m] [b] == bq b.
Proof.
  intros Hm. assert (Hs : 0 < qsum [m]) by (simpl; lra).
  rewrite (lam_feature_share _ _ Hs). unfold kept_mass. simpl. destruct b; simpl; field; lra.
Qed.

(* the seeded variant C19_12: scores whose mass is within 1e-3 of one are used WITHOUT normalisation *)
Definition norm_mi_skip_close (mi : list Q) : list Q :=
  let s := qsum mi in
  if Qle_bool (Qabs (s - 1)) (1 # 1000) then mi else map (fun m => m / s) mi.
Definition lam_feature_skip_close (mi : list Q) (mrow : list bool) : Q :=
  qsum (map2 (fun w m => w * bq m) (norm_mi_skip_close mi) mrow).

(* ... is refuted: [0.5008; 0.3; 0.2] (mass 1.0008), a row keeping all three columns gets lambda = 1.0008 > 1, i.e. a
   NEGATIVE weight for the partner's class; the library's formula gives exactly 1 *)
Lemma skip_close_refuted :
  exists mi mrow,
    Forall (fun v => 0 <= v) mi /\ 0 < qsum mi /\
    ~ (lam_feature_skip_close mi mrow <= 1) /\ ~ (lam_feature_skip_close mi mrow == kept_mass mi mrow / qsum mi) /\
    lam_feature mi mrow == 1.
Proof.
  exists [5008 # 10000; 3 # 10; 2 # 10], [true; true; true].
  split; [repeat constructor; unfold Qle; simpl; lia|].
  split; [vm_compute; reflexivity|].
  split; [intros H; vm_compute in H; apply H; reflexivity|].
  split; [intros H; vm_compute in H; discriminate|].
  vm_compute. reflexivity.
Qed.

(* the seeded variant C19_11: feature mode falls back to hidden mode when there is a single column, so lambda is the
   beta rate instead of the share: refuted on a one-column batch whose row keeps its column at rate 1/4 *)
Lemma single_column_fallback_refuted :
  exists mi (dr : draws),
    0 < qsum mi /\
    mixup_lams MixFeature (Some mi) dr = map (lam_feature mi) (draw_mask (rates dr) (unif dr)) /\
    ~ Forall2 Qeq (mixup_lams MixHidden (Some mi) dr) (mixup_lams MixFeature (Some mi) dr).
Proof.
  exists [3], {| rates := [1 # 4]; perm := [0%nat]; unif := [[0]] |}.
  split; [vm_compute; reflexivity|]. split; [reflexivity|].
  intros H. vm_compute in H. inversion H as [|? ? ? ? E _]. vm_compute in E. discriminate.
Qed.
